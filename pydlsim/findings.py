"""known_findings.jsonl: read-only at run time.  Only `open` entries suppress, and
only a violation whose signature equals the entry's `match` object."""
import json
import os


def load(path, prop):
    out = []
    if not os.path.exists(path):
        return out
    with open(path) as f:
        for line in f:
            line = line.strip()
            if not line or line.startswith('#'):
                continue
            rec = json.loads(line)
            if rec.get('property') == prop and rec.get('status') == 'open':
                out.append(rec)
    return out


def match(known, sig):
    for k in known:
        m = k.get('match') or {}
        if m and all(sig.get(a) == b for a, b in m.items()):
            return k
    return None
