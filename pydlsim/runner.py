"""Driver: fans a check out over worker subprocesses, aggregates their JSON lines,
minimises and confirms violations, matches known findings, writes evidence.

Exit codes: 0 held / 1 violation(s) / 2 harness error / 3 replay diverged.
"""
import glob
import json
import os
import shutil
import subprocess
import sys
import tempfile
import time as _walltime

from . import util, evidence, findings

VERIF = os.path.dirname(os.path.dirname(os.path.abspath(__file__)))


def out_dirs():
    """(replay dir, evidence dir); the self-tests redirect both so that runs against
    mutated copies of /repo never touch the committed evidence."""
    return (os.environ.get('PYDLSIM_REPLAY_DIR') or os.path.join(VERIF, 'replays'),
            os.environ.get('PYDLSIM_EVIDENCE_DIR') or os.path.join(VERIF, 'evidence'))
PY = sys.executable


def worker_env(scratch, hashseed=None):
    env = {}
    for k in ('PATH', 'HOME', 'LANG', 'TMPDIR'):
        if k in os.environ:
            env[k] = os.environ[k]
    env['PYTHONHASHSEED'] = str(hashseed if hashseed is not None
                                else os.environ.get('PYDLSIM_HASHSEED', '0'))
    env['OMP_NUM_THREADS'] = '1'
    env['OPENBLAS_NUM_THREADS'] = '1'
    env['MKL_NUM_THREADS'] = '1'
    env['TZ'] = 'UTC'
    env['PYTHONUTF8'] = '1'        # text files are UTF-8 whatever the caller's locale is
    env['MPLCONFIGDIR'] = os.path.join(scratch, 'mpl')
    env['XDG_CACHE_HOME'] = os.path.join(scratch, 'cache')
    env['XDG_CONFIG_HOME'] = os.path.join(scratch, 'config')
    env['PYTHONDONTWRITEBYTECODE'] = '1'
    pp = [VERIF]
    if os.environ.get('PYDLSIM_PYDL_PATH'):       # a scratch copy of /repo (self-tests only)
        pp.insert(0, os.environ['PYDLSIM_PYDL_PATH'])
    env['PYTHONPATH'] = os.pathsep.join(pp)
    return env


def make_scratch():
    parent = os.environ.get('TMPDIR') or '/tmp'
    d = tempfile.mkdtemp(prefix='pydlsim-run-', dir=parent)
    for sub in ('mpl', 'cache', 'config', 'out', 'work'):
        os.makedirs(os.path.join(d, sub))
    return d


def warm(scratch, env):
    """Build matplotlib's font cache once so 16 workers do not race to build it."""
    subprocess.run([PY, '-c', 'import matplotlib; matplotlib.use("Agg"); '
                    'import matplotlib.pyplot, matplotlib.font_manager; import astropy.io.fits'],
                   env=env, cwd=scratch, stdout=subprocess.DEVNULL, stderr=subprocess.DEVNULL,
                   timeout=300)


def launch(prop, tier, base, n_runs, workers, deadline, hard_timeout, scratch, env, tag='', block=1):
    procs = []
    counter = os.path.join(scratch, 'out', '{0}{1}.counter'.format(tag, prop))
    with open(counter, 'w') as f:
        f.write('0')
    for w in range(workers):
        out = os.path.join(scratch, 'out', '{0}{1}-{2}.jsonl'.format(tag, prop, w))
        cmd = [PY, '-m', 'pydlsim.worker', '--prop', prop, '--tier', tier, '--base', str(base),
               '--start', str(w), '--stop', str(n_runs), '--step', str(workers),
               '--deadline', str(deadline), '--out', out,
               '--scratch', os.path.join(scratch, 'work'), '--hard-timeout', str(hard_timeout),
               '--counter', counter, '--block', str(block)]
        err = open(os.path.join(scratch, 'out', '{0}{1}-{2}.err'.format(tag, prop, w)), 'w')
        p = subprocess.Popen(cmd, env=env, cwd=scratch, stdout=subprocess.DEVNULL, stderr=err)
        procs.append((p, out, err))
    return procs


def collect(procs, hard_timeout):
    """-> (results sorted by i, harness_errors list, exhausted bool)"""
    results, errors = [], []
    exhausted = False
    t_end = _walltime.monotonic() + hard_timeout + 30
    for p, out, err in procs:
        try:
            p.wait(timeout=max(1.0, t_end - _walltime.monotonic()))
        except subprocess.TimeoutExpired:
            p.kill()
            p.wait()
            errors.append('worker timed out: ' + out)
        err.close()
        done = False
        if os.path.exists(out):
            with open(out) as f:
                for line in f:
                    line = line.strip()
                    if not line:
                        continue
                    try:
                        rec = json.loads(line)
                    except ValueError:
                        errors.append('truncated record in ' + out)
                        continue
                    if rec.get('done'):
                        done = True
                    elif 'budget_exhausted_at' in rec:
                        exhausted = True
                    elif rec.get('hello'):
                        pass
                    elif 'harness_error' in rec:
                        errors.append('run %s: %s' % (rec.get('i'), rec['harness_error']))
                    else:
                        results.append(rec)
        if p.returncode != 0 or not done:
            tail = ''
            try:
                with open(err.name) as f:
                    tail = f.read()[-1500:]
            except OSError:
                pass
            errors.append('worker exited with %s (done=%s): %s\n%s' % (p.returncode, done, out, tail))
    results.sort(key=lambda r: r['i'])
    return results, errors, exhausted


def merge_counts(dst, src):
    for k, v in src.items():
        if isinstance(v, dict):
            merge_counts(dst.setdefault(k, {}), v)
        elif isinstance(v, (int, float)) and not isinstance(v, bool):
            dst[k] = dst.get(k, 0) + v
        else:
            dst.setdefault(k, v)


def sub(prop, args, scratch, env, timeout=900):
    cmd = [PY, '-m', 'pydlsim.cli'] + args
    return subprocess.run(cmd, env=env, cwd=scratch, stdout=subprocess.PIPE,
                          stderr=subprocess.PIPE, timeout=timeout, text=True)


def run_check(prop, tier, base, mod, workers=None, n_runs=None, deadline=None):
    """The registered quick/thorough command."""
    t0 = _walltime.monotonic()
    params = dict(mod.TIERS[tier])
    if n_runs is not None:
        params['runs'] = n_runs
    if deadline is not None:
        params['deadline'] = deadline
    workers = workers or int(os.environ.get('PYDLSIM_WORKERS', '0')) or min(16, os.cpu_count() or 1)
    scratch = make_scratch()
    code = 2
    try:
        env = worker_env(scratch)
        print('pydlsim: property=%s tier=%s VERIF_SEED=%d runs=%d workers=%d deadline=%ss scratch=%s'
              % (prop, tier, base, params['runs'], workers, params['deadline'], scratch))
        sys.stdout.flush()
        warm(scratch, env)
        hard = params['deadline']*2.5 + 120
        procs = launch(prop, tier, base, params['runs'], workers, params['deadline'], hard,
                       scratch, env, block=params.get('block', 1))
        results, errors, exhausted = collect(procs, hard)
        agg = {}
        nontrivial = set()
        sets = {}
        n_viol = 0
        viols = []
        for r in results:
            merge_counts(agg, r['stats'])
            nontrivial.update(r.get('nontrivial', ()))
            for name, vals in (r.get('sets') or {}).items():
                sets.setdefault(name, set()).update(vals)
            n_viol += r.get('n_violations', 0)
            for v in r.get('violations', ()):
                viols.append((r['i'], v))
        samples = [r['sample'] for r in results[:3] if 'sample' in r]
        wall_runs = sum(r.get('wall_s', 0.0) for r in results)
        slow = sorted(((round(r.get('wall_s', 0.0), 1), r['i']) for r in results), reverse=True)[:5]
        print('pydlsim: slowest runs (s, index): %s' % slow)
        # ---- violations: match known findings, minimise, confirm by fresh replay -----
        known = findings.load(os.path.join(VERIF, 'known_findings.jsonl'), prop)
        reported = []
        known_hits = {}
        seen_sig = set()
        for i, v in viols:
            sig = mod.signature(v)
            kf = findings.match(known, sig)
            if kf is not None:
                known_hits.setdefault(kf['what'], 0)
                known_hits[kf['what']] += 1
                continue
            key = util.canon(mod.dedup_key(sig))
            if key in seen_sig or len(reported) >= 5:
                continue
            seen_sig.add(key)
            reported.append((i, v, sig))
        out_lines = []
        replay_dir, evidence_dir = out_dirs()
        os.makedirs(os.path.join(replay_dir, prop), exist_ok=True)
        for i, v, sig in reported:
            raw = os.path.join(scratch, 'out', 'viol-%d.json' % i)
            with open(raw, 'w') as f:
                f.write(util.dumps(v['desc'], indent=1))
            path = os.path.join(replay_dir, prop, '%d-%d.json' % (v['desc']['seed'], len(out_lines)))
            try:
                pr = sub(prop, [prop, '--shrink', raw, '--out', path], scratch, env)
                if pr.returncode != 0 or not os.path.exists(path):
                    shutil.copyfile(raw, path)
            except subprocess.TimeoutExpired:
                shutil.copyfile(raw, path)
            pr = sub(prop, [prop, '--replay', path], scratch, env)
            if pr.returncode == 1:
                out_lines.append('VIOLATION property=%s replay=%s' % (prop, path))
                print('violation: run %d seed %d %s' % (i, v['desc']['seed'], util.canon(sig)))
            else:
                # the minimised file did not reproduce in a fresh process: fall back to the
                # unminimised description; if that does not reproduce either it is a
                # determinism breach of the harness, not a verdict
                shutil.copyfile(raw, path)
                pr2 = sub(prop, [prop, '--replay', path], scratch, env)
                if pr2.returncode == 1:
                    out_lines.append('VIOLATION property=%s replay=%s' % (prop, path))
                else:
                    errors.append('violation of run %d did not replay (exit %s / %s): %s'
                                  % (i, pr.returncode, pr2.returncode, (pr2.stdout + pr2.stderr)[-800:]))
        for k_, v_ in sorted(agg.items()):
            if k_.startswith('observation_not_') and v_:
                print('OBSERVATION (not a verdict): %s in %d of %d observation runs'
                      % (k_[len('observation_'):], v_, agg.get('observation_runs_' + k_.split('_on_')[-1], 0)))
        for what, n in sorted(known_hits.items()):
            print('KNOWN-FINDING: property=%s %s (seen %d times)' % (prop, what, n))
        wall = _walltime.monotonic() - t0
        ev_ok = True
        if results:
            ev = evidence.build(prop, tier, base, mod, results, agg, sorted(nontrivial), samples,
                                wall, wall_runs, workers, len(out_lines), exhausted, params,
                                known_hits, sets=sets)
            problems = evidence.validate(ev)
            if problems:
                errors.append('evidence not schema-valid: %s' % problems)
                ev_ok = False
            else:
                evidence.write(os.path.join(evidence_dir, prop + '.json'), ev)
        else:
            errors.append('no run completed')
        print('pydlsim: %d/%d runs, %d evaluations, %d distinct non-trivial, %d violating executions, '
              '%.1fs wall%s' % (len(results), params['runs'], evidence.evaluations(prop, agg, results),
                                len(nontrivial), n_viol, wall,
                                ' (budget exhausted before all runs were done)' if exhausted else ''))
        minimum = min(params.get('min_runs', 1), params['runs'])
        if len(results) < minimum:
            errors.append('only %d runs completed (< %d)' % (len(results), minimum))
        for line in out_lines:
            print(line)
        if errors:
            for e in errors[:10]:
                print('HARNESS-ERROR: ' + e.replace('\n', '\n    '))
        if out_lines:
            code = 1
        elif errors or not ev_ok:
            code = 2
        else:
            code = 0
    finally:
        shutil.rmtree(scratch, ignore_errors=True)
    return code
