"""Evidence assembly and a hand-written validator mirroring EVIDENCE.schema.json
for the two levels used here (jsonschema is not installed in /venv)."""
import json
import os

from . import util

LEVELS = {'C03': 'exploration', 'C20': 'fault_enumeration'}


def evaluations(prop, agg, results):
    if prop == 'C20':
        return int(agg.get('recordings', 0) + agg.get('injected_runs', 0))
    return len(results)


def build(prop, tier, base, mod, results, agg, nontrivial, samples, wall, wall_runs, workers,
          n_viol, exhausted, params, known_hits, sets=None):
    ev_n = evaluations(prop, agg, results)
    cov = {'evaluations': ev_n,
           'distinct_nontrivial': len(nontrivial),
           'rule': mod.RULE,
           'samples': samples[:3] or [{}],
           'exhaustive': False,
           'simulated_runs': len(results),
           'runs_requested': params['runs'],
           'budget_exhausted': bool(exhausted),
           'workers': workers,
           'runs_per_hour': round(len(results)*3600.0/max(wall, 1e-9)),
           'evaluations_per_hour': round(ev_n*3600.0/max(wall, 1e-9)),
           'cpu_seconds_in_runs': round(wall_runs, 1),
           'simulated_seconds_covered': round(float(agg.get('sim_seconds', 0.0)), 1),
           'counters': {k: v for k, v in sorted(agg.items()) if k != 'sim_seconds'},
           'real_vs_stub': mod.REAL_VS_STUB,
           'known_findings_seen': known_hits,
           'seeds': {'base': base, 'derivation': 'blake2b("%s:<VERIF_SEED>:<run index>")' % prop,
                     'first_run_seeds': [r['seed'] for r in results[:5]]},
           'run_digest': util.digest([[r['i'], r['digest']] for r in results])}
    for name, vals in sorted((sets or {}).items()):
        cov['distinct_' + name] = len(vals)
    probes = agg.get('probes', {})
    stuck = [p for p in getattr(mod, 'PROBES', ()) if not probes.get(p)]
    cov['reach_probes_stuck_at_zero'] = stuck
    return {'property_id': prop, 'tier': tier, 'seed': int(base), 'level': LEVELS[prop],
            'coverage': cov, 'assumptions': list(mod.ASSUMPTIONS), 'wall_s': round(wall, 2),
            'violations': int(n_viol)}


def validate(ev):
    """-> list of problems (empty = valid for exploration / fault_enumeration)."""
    bad = []
    for k in ('property_id', 'tier', 'seed', 'level', 'coverage', 'wall_s'):
        if k not in ev:
            bad.append('missing ' + k)
    if bad:
        return bad
    if ev['tier'] not in ('quick', 'thorough'):
        bad.append('tier')
    if not isinstance(ev['seed'], int) or isinstance(ev['seed'], bool):
        bad.append('seed not integer')
    if ev['level'] not in ('exploration', 'fault_enumeration'):
        bad.append('level')
    if not isinstance(ev['wall_s'], (int, float)):
        bad.append('wall_s')
    c = ev['coverage']
    if not isinstance(c, dict):
        return bad + ['coverage not object']
    for k in ('evaluations', 'distinct_nontrivial', 'rule', 'samples'):
        if k not in c:
            bad.append('coverage missing ' + k)
    if bad:
        return bad
    if not isinstance(c['evaluations'], int) or c['evaluations'] < 1:
        bad.append('evaluations < 1')
    if not isinstance(c['distinct_nontrivial'], int) or c['distinct_nontrivial'] < 2:
        bad.append('distinct_nontrivial < 2')
    if not isinstance(c['rule'], str):
        bad.append('rule')
    if not isinstance(c['samples'], list) or len(c['samples']) < 1:
        bad.append('samples')
    if 'violations' in ev and not isinstance(ev['violations'], int):
        bad.append('violations')
    if 'assumptions' in ev and not all(isinstance(a, str) for a in ev['assumptions']):
        bad.append('assumptions')
    try:
        json.loads(util.dumps(ev))
    except (TypeError, ValueError) as e:
        bad.append('not JSON: %s' % e)
    return bad


def write(path, ev):
    os.makedirs(os.path.dirname(path), exist_ok=True)
    tmp = path + '.tmp'
    with open(tmp, 'w') as f:
        f.write(util.dumps(ev, indent=1, sort_keys=True))
        f.write('\n')
    os.replace(tmp, path)
