"""./check <property> [--tier quick|thorough] | --replay FILE | --shrink FILE --out FILE
   ./check selftest [...]   ./check doctor"""
import argparse
import importlib
import json
import os
import sys
import tempfile
import shutil
import warnings

from . import util

try:      # pydl's import logs astropy deprecation warnings; keep the check output clean
    import astropy
    astropy.log.setLevel('ERROR')
except Exception:
    pass

PROPS = ('C03', 'C20')


def _mod(prop):
    return importlib.import_module('pydlsim.%s.check' % prop.lower())


def _inproc_setup():
    """For --replay/--shrink executed directly by a user: same fixed process
    environment as the workers get."""
    os.environ.setdefault('OMP_NUM_THREADS', '1')
    os.environ.setdefault('OPENBLAS_NUM_THREADS', '1')
    os.environ['TZ'] = 'UTC'
    warnings.simplefilter('ignore')
    from . import worker
    worker.preload()


def _reexec_if_needed():
    """Replay must not depend on the caller's hash seed: re-exec with PYTHONHASHSEED=0."""
    want = os.environ.get('PYDLSIM_HASHSEED', '0')
    if os.environ.get('PYTHONHASHSEED') != want or os.environ.get('PYTHONUTF8') != '1':
        env = dict(os.environ)
        env['PYTHONHASHSEED'] = want
        env['PYTHONUTF8'] = '1'
        env.setdefault('MPLCONFIGDIR', os.path.join(tempfile.gettempdir(), 'pydlsim-mpl'))
        here = os.path.dirname(os.path.dirname(os.path.abspath(__file__)))
        pp = [here]
        if env.get('PYDLSIM_PYDL_PATH'):
            pp.insert(0, env['PYDLSIM_PYDL_PATH'])
        env['PYTHONPATH'] = os.pathsep.join(pp)
        os.execve(sys.executable, [sys.executable, '-m', 'pydlsim.cli'] + sys.argv[1:], env)


def cmd_replay(prop, path):
    _reexec_if_needed()
    _inproc_setup()
    mod = _mod(prop)
    with open(path) as f:
        desc = json.load(f)
    scratch = tempfile.mkdtemp(prefix='pydlsim-replay-')
    try:
        r = mod.replay(desc, scratch=scratch)
    finally:
        shutil.rmtree(scratch, ignore_errors=True)
    print('replay: property=%s file=%s trace_digest=%s' % (prop, path, r['trace_digest']))
    for line in r.get('trace', [])[-12:]:
        print('  ' + util.canon(line)[:300])
    v = r['violation']
    if v is not None and mod.same_class(v, desc.get('expect')):
        print('violation reproduced: ' + util.canon(v)[:600])
        print('VIOLATION property=%s replay=%s' % (prop, os.path.abspath(path)))
        return 1
    if v is not None:
        print('a different violation than the recorded one: ' + util.canon(v)[:600])
        print('VIOLATION property=%s replay=%s' % (prop, os.path.abspath(path)))
        return 1
    if r.get('diverged'):
        print('replay diverged: the recorded fault site was never reached (code changed?)')
        return 3
    print('no violation: the property holds on this replay')
    return 0


def cmd_shrink(prop, path, out):
    _reexec_if_needed()
    _inproc_setup()
    mod = _mod(prop)
    with open(path) as f:
        desc = json.load(f)
    scratch = tempfile.mkdtemp(prefix='pydlsim-shrink-')
    try:
        small = mod.shrink(desc, scratch=scratch)
    finally:
        shutil.rmtree(scratch, ignore_errors=True)
    with open(out, 'w') as f:
        f.write(util.dumps(small, indent=1))
    return 0


def cmd_doctor():
    import astropy
    astropy.log.setLevel('ERROR')
    import pydl
    ok = True
    print('python', sys.version.split()[0], 'pydl from', os.path.dirname(pydl.__file__))
    if not hasattr(sys, 'monitoring'):
        print('sys.monitoring missing (needs Python >= 3.12)')
        ok = False
    for m in ('numpy', 'scipy', 'astropy', 'matplotlib'):
        try:
            importlib.import_module(m)
        except Exception as e:
            print('cannot import', m, e)
            ok = False
    for p in PROPS:
        _mod(p)
    print('doctor:', 'ok' if ok else 'FAILED')
    return 0 if ok else 2


def main(argv=None):
    argv = list(sys.argv[1:] if argv is None else argv)
    if not argv:
        print(__doc__)
        return 2
    what = argv[0]
    if what == 'doctor':
        return cmd_doctor()
    if what == 'selftest':
        from .selftest import main as st
        return st.main(argv[1:])
    if what not in PROPS:
        print('unknown property', what)
        return 2
    ap = argparse.ArgumentParser(prog='check ' + what)
    ap.add_argument('--tier', default=os.environ.get('VERIF_TIER', 'quick'), choices=['quick', 'thorough'])
    ap.add_argument('--replay')
    ap.add_argument('--shrink')
    ap.add_argument('--out')
    ap.add_argument('--runs', type=int)
    ap.add_argument('--workers', type=int)
    ap.add_argument('--deadline', type=float)
    a = ap.parse_args(argv[1:])
    if a.replay:
        return cmd_replay(what, a.replay)
    if a.shrink:
        return cmd_shrink(what, a.shrink, a.out)
    from . import runner
    base = int(os.environ.get('VERIF_SEED', '0') or 0)
    return runner.run_check(what, a.tier, base, _mod(what), workers=a.workers, n_runs=a.runs,
                            deadline=a.deadline)


if __name__ == '__main__':
    sys.exit(main())
