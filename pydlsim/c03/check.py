"""C03: one simulated run = initial table set + a history, checked against the model."""
import copy
import time as _walltime

from .. import util
from . import gen, machine

PROPERTY = 'C03'


def _vclass(v):
    return [v['oracle'], v['op']]


def run_one(seed, tier, scratch=None, max_violations=1):
    t0 = _walltime.perf_counter()
    desc = gen.generate(seed, tier)
    res = machine.execute(desc, scratch=scratch)
    v = res['violation']
    abstract = res['abstract']
    st = {'histories': 1, 'steps': res['steps_done'], 'ops': res['ops'], 'probes': res['probes'],
          'sim_seconds': res['sim_seconds'], 'clock_readings': res['clock_readings'],
          'seam_calls': res['seam_calls'], 'start_modes': {desc['start']: 1},
          'tables': len(desc['tables']),
          'faults': {'ext_delete': res['ops'].get('ext_delete:ok', 0),
                     'ext_create': res['ops'].get('ext_create:ok', 0),
                     'clock_jump': res['ops'].get('clock_jump:ok', 0),
                     'refusals_provoked': sum(n for k, n in res['ops'].items() if k.endswith(':refused'))}}
    n_ok_append = res['ops'].get('append:ok', 0)
    other = any(a[1] == 'refused' for a in abstract) or any(a[0] == 'write_copy' and a[1] == 'ok' for a in abstract)
    if not other:
        # re-read followed (later) by a successful append
        seen_reread = False
        for a in abstract:
            if a[0] == 'reread' and a[1] == 'ok':
                seen_reread = True
            if seen_reread and a[0] == 'append' and a[1] == 'ok':
                other = True
    nontrivial = []
    if n_ok_append >= 1 and other:
        nontrivial = [util.digest(abstract)]
    out = {'seed': seed, 'digest': util.digest([res['trace'], v and _vclass(v)]), 'stats': st,
           'nontrivial': nontrivial, 'n_violations': 1 if v else 0,
           'wall_s': _walltime.perf_counter() - t0, 'violations': []}
    if v:
        d = copy.deepcopy(desc)
        d['expect'] = {'oracle': v['oracle'], 'op': v['op'], 'step': v['step'], 'detail': v['detail']}
        out['violations'] = [dict(v, desc=d, entry=v['op'])]
    out['sample'] = {'start': desc['start'],
                     'tables': [[t['name'], [(c['kind'] + ('[%d]' % c['len'] if c.get('len') else '') + ('[]' if c.get('var') else ''))
                                             for c in t['columns']], len(t['rows'])]
                                for t in desc['tables']],
                     'history': abstract}
    return out


def replay(desc, scratch=None):
    res = machine.execute(desc, scratch=scratch)
    v = res['violation']
    if v is not None:
        v = dict(v)
    return {'violation': v, 'diverged': False, 'trace_digest': util.digest(res['trace']),
            'trace': res['trace']}


def same_class(v, expect):
    if v is None:
        return False
    if not expect:
        return True
    return v['oracle'] == expect['oracle'] and v['op'] == expect['op']


def signature(v):
    """For known-finding matching: first divergent step kind, oracle, table shape class."""
    d = v.get('desc') or {}
    zero_row_array = any((not t['rows']) and any(c.get('len') for c in t['columns'])
                         for t in d.get('tables', []))
    return {'oracle': v['oracle'], 'op': v['op'], 'step_is_init': v.get('step', 0) < 0,
            'zero_row_table_with_array_column': zero_row_array}


def dedup_key(sig):
    return [sig['oracle'], sig['op']]


def shrink(desc, scratch=None, budget=250):
    expect = desc.get('expect')
    best = copy.deepcopy(desc)
    used = [0]

    def ok(cand):
        if used[0] >= budget:
            return False
        used[0] += 1
        try:
            # in a forked child: a replay must not inherit module-level state from the previous one
            r = util.run_forked(lambda: machine.execute(cand, scratch=scratch))
        except Exception:
            return False
        return same_class(r['violation'], expect)

    def attempt(mut):
        cand = copy.deepcopy(best)
        try:
            if mut(cand) is False:
                return False
        except (KeyError, IndexError, TypeError, ValueError):
            return False
        if util.canon(cand) == util.canon(best):
            return False
        if ok(cand):
            best.clear()
            best.update(cand)
            return True
        return False

    # 0. cut everything after the violating step
    r0 = machine.execute(best, scratch=scratch)
    used[0] += 1
    if r0['violation'] is not None and r0['violation']['step'] >= 0:
        attempt(lambda c: c.__setitem__('steps', c['steps'][:r0['violation']['step'] + 1]))
    elif r0['violation'] is not None:
        attempt(lambda c: c.__setitem__('steps', []))
    # 1. drop steps, last first (keep the final one: it is the violating one)
    changed = True
    while changed and used[0] < budget:
        changed = False
        for i in range(len(best['steps']) - 2, -1, -1):
            if attempt(lambda c, i=i: c['steps'].pop(i)):
                changed = True
    # 2. drop tables (and the rows appended to them)
    for ti in range(len(best['tables']) - 1, -1, -1):
        def drop_table(c, ti=ti):
            if len(c['tables']) <= 1:
                return False
            c['tables'].pop(ti)
            for st in c['steps']:
                if st['op'] == 'append':
                    rows = {}
                    for k, v in st['rows'].items():
                        k = int(k)
                        if k == ti:
                            continue
                        rows[str(k - 1 if k > ti else k)] = v
                    st['rows'] = rows
        attempt(drop_table)
    # 3. drop columns
    for ti in range(len(best['tables'])):
        for ci in range(len(best['tables'][ti]['columns']) - 1, -1, -1):
            def drop_col(c, ti=ti, ci=ci):
                t = c['tables'][ti]
                if len(t['columns']) <= 1:
                    return False
                t['columns'].pop(ci)
                for row in t['rows']:
                    row.pop(ci)
                for st in c['steps']:
                    if st['op'] == 'append' and str(ti) in st['rows']:
                        for row in st['rows'][str(ti)]:
                            row.pop(ci)
            attempt(drop_col)
    # 4. drop initial rows, header pairs, appended rows/pairs
    for ti in range(len(best['tables'])):
        for ri in range(len(best['tables'][ti]['rows']) - 1, -1, -1):
            attempt(lambda c, ti=ti, ri=ri: c['tables'][ti]['rows'].pop(ri))
    for hi in range(len(best['hdr']) - 1, -1, -1):
        attempt(lambda c, hi=hi: c['hdr'].pop(hi))
    for si in range(len(best['steps'])):
        st = best['steps'][si]
        if st['op'] != 'append':
            continue
        for k in list(st['rows']):
            for ri in range(len(st['rows'][k]) - 1, 0, -1):
                attempt(lambda c, si=si, k=k, ri=ri: c['steps'][si]['rows'][k].pop(ri))
        for pi in range(len(st['pairs']) - 1, -1, -1):
            attempt(lambda c, si=si, pi=pi: c['steps'][si]['pairs'].pop(pi))
    # 5. simpler values
    def simple(col):
        k = col['kind']
        one = 0 if k in ('i2', 'i4', 'i8') else ('0.0' if k in ('f4', 'f8') else
                                                   (col['enum'][1][0] if k == 'E' else 'a'))
        return [one]*col['len'] if col.get('len') else one
    for ti in range(len(best['tables'])):
        for ci in range(len(best['tables'][ti]['columns'])):
            def simp(c, ti=ti, ci=ci):
                t = c['tables'][ti]
                v = simple(t['columns'][ci])
                for row in t['rows']:
                    row[ci] = copy.deepcopy(v)
                for st in c['steps']:
                    if st['op'] == 'append' and str(ti) in st['rows']:
                        for row in st['rows'][str(ti)]:
                            row[ci] = copy.deepcopy(v)
            attempt(simp)
    attempt(lambda c: c.__setitem__('start', 'writer'))
    for key, val in (('comments', None), ('style', 0), ('eol', '\n'), ('final_newline', True)):
        attempt(lambda c, key=key, val=val: c.__setitem__(key, val))
    for si in range(len(best['steps'])):
        if best['steps'][si].get('comments') is not None:
            attempt(lambda c, si=si: c['steps'][si].__setitem__('comments', None))
        if best['steps'][si]['op'] == 'write_copy' and len(best['steps'][si]['name']) > 8:
            attempt(lambda c, si=si: c['steps'][si].__setitem__('name', 'g%d.par' % si))
    attempt(lambda c: c.__setitem__('clock', {'start': 1.7e9, 'ticks': [1.0]}))
    for si in range(len(best['steps'])):
        if best['steps'][si]['op'] == 'append':
            attempt(lambda c, si=si: c['steps'][si].update(case='upper', form='lists', symbols=False))
    best.pop('weights', None)
    best['shrink_replays'] = used[0]
    return best


# ---------------------------------------------------------------------------
TIERS = {
    'quick': {'runs': 12000, 'deadline': 100.0, 'min_runs': 800, 'block': 20},
    'thorough': {'runs': 120000, 'deadline': 2700.0, 'min_runs': 20000, 'block': 50},
}

RULE = ("One run = a seeded initial table set (1-3 tables - up to 5 in the thorough tier -, 0-4 rows, 1-6 "
        "columns of short/int/long/float/double/char[n]/numeric arrays/char arrays/one enum, occasionally "
        "wide arrays and long strings, column names unique or shared between tables, 0-5 header pairs) "
        "either written with write_ndarray_to_yanny (custom comments) and kept or re-read in normal or raw "
        "mode, or rendered by the simulator as a file from another tool (variable-length char x[] columns, "
        "tabs, lower-case struct names, CRLF, no final newline) and read; followed by 3-16 steps (8 % of "
        "the runs: 20-40, thorough: up to 96) drawn with per-run weights from {append rows (dict of lists, "
        "numpy scalars in lists, record array, permuted/extra fields; upper- or lower-case key; 1-3 or up "
        "to 130 rows), append pairs (plain, names that look like bookkeeping keys, values the format "
        "cannot carry verbatim), append both, append nothing, write a copy (names of 6-96 chars, custom "
        "comments), re-read raw/normal, write over an existing file (own file, file/empty file/directory "
        "created by the external actor, an earlier copy, write_ndarray_to_yanny on an existing file), "
        "external delete then append then re-create by write() / external restore / copy, external "
        "bystanders named <target><suffix>, clock jump (back, same second, year 1 / 9999, year end)}. "
        "After every step: object == reference model, fresh read in both modes == model, every file in "
        "the directory byte-identical to the model's copy (earlier bytes are a prefix after an append), "
        "object.filename == the file the history bound it to, refusals raised, empty appends warned. "
        "evaluations = histories executed. A history is non-trivial when it contains at least one "
        "successful append and at least one of {refused operation, successful copy, re-read followed by a "
        "successful append}; distinct = distinct abstract histories (sequence of (step kind, outcome, "
        "object mode, key case, row form)).")

REAL_VS_STUB = {
    'real': ['pydl.pydlutils.yanny (yanny, write, append, _parse, write_ndarray_to_yanny)', 'numpy',
             'kernel filesystem in a per-run scratch directory (text mode, append mode, os.access)'],
    'stub': [],
    'simulated': ['wall clock behind yanny.datetime (SimClock, with jumps to year 1 / 9999, backwards, frozen)',
                  'operation scheduler (one PRNG)', 'external actor creating and deleting files between operations'],
    'spies': ['yanny.open and yanny.os.access are delegating wrappers that log and call the real function'],
}

ASSUMPTIONS = [
    "Value domain is the conservative core of what a yanny file can hold (no double quotes, backslashes, "
    "non-ASCII, newlines, leading '{', '}' in array elements, '{{}}' sequences, 'typedef'; float32 values whose "
    "shortest text survives double rounding; header values without '#', tabs or surrounding blanks): "
    "the value space is C01/C02's subject.",
    "External actions happen only between library operations (the check-then-open window inside write/append "
    "is not exercised: the property quantifies over histories of operations, not over concurrent writers).",
    "No I/O errors are injected: the property promises nothing about them.",
    "Spy observations are recorded but never judged; verdicts come from post-state oracles.",
]

PROBES = ['append_ok', 'append_after_copy', 'append_after_raw_reread', 'append_lower_case_key',
          'append_recarray', 'append_to_zero_row_table', 'two_appends_same_simulated_second',
          'append_after_clock_jumped_back', 'write_over_own_file', 'write_over_existing',
          'append_to_missing', 'append_after_missing_refusal_and_recreate',
          'append_string_array_column', 'append_enum_column', 'append_empty', 'write_copy',
          'write_self_recreates_deleted_file', 'write_ndarray_over_existing', 'start_from_external_file', 'append_after_missing_refusal_and_external_restore',
          'append_pair_value_the_format_cannot_carry', 'append_rows_with_other_field_order',
          'bystander_named_after_bound_file',
          'write_with_custom_comments', 'append_widens_variable_length_char_column']
