"""C03: execute a run description against the real yanny code in a scratch
directory, with the simulated clock behind `yanny.datetime`, delegating spies on
`yanny.open` / `yanny.os.access`, the external actor, and the reference model.

Verdicts come from post-state oracles only (object = model, fresh read = model
in both modes, byte preservation, refusals leave everything as it was, an
empty append warns).  Spy observations are recorded, never judged: the
statement is about what is observable after each operation.
"""
import builtins
import collections
import hashlib
import os
import shutil
import tempfile
import warnings

from ..world.clock import SimClock, Seams, install_clock
from . import model as M


class Stop(Exception):
    def __init__(self, v):
        Exception.__init__(self, v.get('oracle'))
        self.v = v


class _OsProxy(object):
    """Stands in for the `os` module inside yanny.py: delegates everything, logs access()."""

    def __init__(self, log, root):
        self._log = log
        self._root = root

    def access(self, path, mode, **kw):
        ans = os.access(path, mode, **kw)
        q = {os.F_OK: 'F_OK', os.R_OK: 'R_OK', os.W_OK: 'W_OK', os.X_OK: 'X_OK'}.get(mode, str(mode))
        self._log.append(['access', _rel(path, self._root), q, bool(ans)])
        return ans

    def __getattr__(self, name):
        return getattr(os, name)


def _rel(path, root):
    try:
        p = os.fspath(path)
    except TypeError:
        return '<%s>' % type(path).__name__
    if isinstance(p, bytes):
        p = p.decode('utf-8', 'replace')
    ap = os.path.abspath(p)
    if ap.startswith(root):
        return ap[len(root):].lstrip(os.sep)
    return p


GARBAGE = bytes([0, 255, 254, 35, 10, 123, 125, 34, 92, 10]) * 3
OTHER_YANNY = (b"#%yanny\n# somebody else's file\nowner other\n\ntypedef struct {\n int a;\n} OTHER;\n\n"
               b"OTHER 1\nOTHER 2\n")


class Machine(object):
    def __init__(self, desc, scratch=None):
        import pydl.pydlutils.yanny as ymod
        from pydl.pydlutils import PydlutilsUserWarning
        self.ymod = ymod
        self.UserWarning_ = PydlutilsUserWarning
        self.desc = desc
        self.root = os.path.realpath(tempfile.mkdtemp(prefix='pydlsim-c03-', dir=scratch))
        self.clock = SimClock(desc['clock']['start'], desc['clock']['ticks'])
        self.seams = Seams()
        self.seam_log = []
        self.model = M.Model(desc['tables'], desc['hdr'])
        self.obj = None
        self.trace = []
        self.abstract = []
        self.probes = collections.Counter()
        self.ops = collections.Counter()
        self.last_append_second = None
        self.jumped_back = False
        self.after_copy = False
        self.after_raw_reread = False
        self.rel = desc.get('paths', 'abs') == 'rel'
        self._cwd0 = os.getcwd()
        self._home0 = os.environ.get('HOME')
        self.recovery = 0        # 1 after a refused append-to-missing, 2 after write_self re-created it

    # -- plumbing -----------------------------------------------------------
    def path(self, name):
        return os.path.join(self.root, name)

    def lpath(self, name):
        """The spelling of a file name handed to the library: absolute, or (paths='rel') a bare
        name relative to the current directory, which is the scratch root for the whole run."""
        return name if self.rel else os.path.join(self.root, name)

    def install(self):
        ymod = self.ymod
        os.chdir(self.root)               # relative spellings resolve inside the scratch root
        os.environ['HOME'] = self.root    # and so does '~' for an implementation that expands it
        install_clock(self.seams, ymod, self.clock)
        log = self.seam_log
        root = self.root
        real_open = builtins.open

        def spy_open(file, mode='r', *a, **k):
            exists = None
            try:
                exists = os.path.exists(file)
            except TypeError:
                pass
            log.append(['open', _rel(file, root), mode, exists])
            return real_open(file, mode, *a, **k)
        self.seams.set(ymod, 'open', spy_open)
        if getattr(ymod, 'os', None) is os:
            self.seams.set(ymod, 'os', _OsProxy(log, root))

    def close(self):
        self.seams.restore()
        os.chdir(self._cwd0)
        if self._home0 is None:
            os.environ.pop('HOME', None)
        else:
            os.environ['HOME'] = self._home0
        shutil.rmtree(self.root, ignore_errors=True)

    def disk(self):
        out = {}
        for dp, dn, fn in os.walk(self.root):
            for f in fn:
                p = os.path.join(dp, f)
                with open(p, 'rb') as fh:
                    out[os.path.relpath(p, self.root)] = fh.read()
            for d in dn:
                out[os.path.relpath(os.path.join(dp, d), self.root) + os.sep] = b''
        return out

    def stop(self, oracle, detail, **kw):
        v = {'oracle': oracle, 'detail': str(detail).replace(self.root, '$ROOT')[:700]}
        v.update(kw)
        raise Stop(v)

    # -- construction of call arguments ----------------------------------------
    def _enums(self):
        en = {}
        for t in self.model.tables:
            for c in t['columns']:
                if c['kind'] == 'E':
                    en[c['name']] = (c['enum'][0], tuple(c['enum'][1]))
        return en or None

    def _initial_args(self):
        tabs = [M.to_numpy_rows(t['columns'], t['rows']) for t in self.desc['tables']]
        names = [t['name'] for t in self.desc['tables']]
        hdr = collections.OrderedDict((k, v) for k, v in self.desc['hdr']) or None
        return tabs, names, hdr

    # -- the oracles ---------------------------------------------------------
    def check_all(self, when):
        mdl = self.model
        # A. the directory holds exactly the files the model knows, byte for byte
        disk = self.disk()
        if sorted(disk) != sorted(mdl.files):
            extra = sorted(set(disk) - set(mdl.files))
            missing = sorted(set(mdl.files) - set(disk))
            self.stop('files_created_or_removed', 'unexpected files %r, missing files %r' % (extra, missing))
        for name in sorted(disk):
            if disk[name] != mdl.files[name]:
                self.stop('file_bytes_changed', 'file %s differs from what the history produced' % name,
                          file=name)
        # B0. values of 'wild' pairs are whatever a fresh read says they are
        if mdl.wild and mdl.bound in mdl.files:
            try:
                with warnings.catch_warnings():
                    warnings.simplefilter('ignore')
                    fresh0 = self.ymod.yanny(self.path(mdl.bound))
                    for k in mdl.wild:
                        if k in fresh0.pairs():
                            mdl.wild[k] = fresh0[k]
            except Exception as e:
                self.stop('fresh_read_raises', 'raw=False %s: %s' % (type(e).__name__, e))
        want = mdl.expected()
        # C. object = model
        try:
            got = M.observe(self.obj, mdl)
            dprob = M.dtype_problems(self.obj, mdl)
            fname = self.obj.filename
        except Stop:
            raise
        except Exception as e:
            self.stop('object_access_raises', '%s: %s' % (type(e).__name__, e))
        d = M.first_difference(got, want)
        if d:
            self.stop('object_ne_model', d)
        if dprob:
            # widths/kinds of the record array are not part of the statement (values are):
            # recorded as an observation, never judged
            self.probes['observation_dtype_differs_from_declared'] += 1
        if os.path.abspath(fname) != self.path(mdl.bound):
            self.stop('object_filename', 'object bound to %r, history says %r' % (fname, mdl.bound))
        # B. fresh read = model, both modes
        if mdl.bound in mdl.files:
            for raw in (False, True):
                try:
                    with warnings.catch_warnings():
                        warnings.simplefilter('ignore')
                        fresh = self.ymod.yanny(self.path(mdl.bound), raw=raw)
                        got = M.observe(fresh, mdl)
                        dprob = M.dtype_problems(fresh, mdl)
                except Stop:
                    raise
                except Exception as e:
                    self.stop('fresh_read_raises', 'raw=%s %s: %s' % (raw, type(e).__name__, e))
                d = M.first_difference(got, want)
                if d:
                    self.stop('fresh_read_ne_model', 'raw=%s %s' % (raw, d))
                if dprob:
                    self.probes['observation_dtype_differs_from_declared'] += 1
        return True

    def _filesig(self):
        h = hashlib.blake2b(digest_size=8)
        for name in sorted(self.model.files):
            h.update(name.encode())
            for line in self.model.files[name].split(b'\n'):
                if not line.lstrip().startswith(b'#'):
                    h.update(line + b'\n')
        return h.hexdigest()

    def _call(self, fn, expect):
        """Run one library operation.  expect in {'ok', 'raise', 'warn', 'warn-or-raise'}.
        -> outcome string"""
        nseam = len(self.seam_log)
        with warnings.catch_warnings(record=True) as wlist:
            warnings.simplefilter('always')
            try:
                fn()
                raised = None
            except Exception as e:
                raised = e
        # "appending nothing only warns": any warning category will do
        user_w = [w for w in wlist if not issubclass(w.category, (DeprecationWarning, PendingDeprecationWarning,
                                                                   ResourceWarning))]
        self.last_warning_categories = sorted(set(w.category.__name__ for w in wlist))
        self._last_seams = self.seam_log[nseam:]
        if expect == 'ok':
            if raised is not None:
                self.stop('operation_raised', '%s: %s' % (type(raised).__name__, raised))
            return 'ok'
        if expect == 'raise':
            if raised is None:
                self.stop('refusal_did_not_raise', 'the request was carried out or ignored silently')
            return 'refused'
        if expect == 'warn':
            if raised is not None:
                self.stop('empty_append_raised', '%s: %s' % (type(raised).__name__, raised))
            if not user_w:
                self.stop('empty_append_did_not_warn', 'no warning was issued')
            return 'warned'
        if expect == 'warn-or-raise':
            if raised is None and not user_w:
                self.stop('empty_append_did_not_warn', 'no warning was issued')
            return 'refused' if raised is not None else 'warned'
        raise ValueError(expect)

    # -- steps -----------------------------------------------------------------
    def init(self):
        tabs, names, hdr = self._initial_args()
        mdl = self.model
        mdl.bound = 'f0.par'
        holder = {}
        start = self.desc.get('start', 'writer')
        if start.startswith('external'):
            # the file was produced by somebody else's tool; the object only reads it
            text = M.render_external(self.desc['tables'], self.desc['hdr'], self.desc.get('style', 0),
                                     eol=self.desc.get('eol', '\n'),
                                     final_newline=self.desc.get('final_newline', True),
                                     numfmt=self.desc.get('numfmt', 'plain'))
            with open(self.path('f0.par'), 'wb') as f:
                f.write(text)
            mdl.files['f0.par'] = text
            self._reread(start.endswith('raw'))
            self.probes['start_from_external_file'] += 1
        else:
            comments = self.desc.get('comments')

            def fn():
                holder['obj'] = self.ymod.write_ndarray_to_yanny(
                    self.lpath('f0.par'), tabs, structnames=names, enums=self._enums(), hdr=hdr,
                    comments=comments)
            self._call(fn, 'ok')
            self.obj = holder['obj']
            disk = self.disk()
            if 'f0.par' not in disk:
                self.stop('write_new_created_nothing', 'write_ndarray_to_yanny returned but no file exists')
            mdl.files['f0.par'] = disk['f0.par']
            if start != 'writer':
                self._reread(start == 'raw')
        if self.rel:
            self.probes['relative_file_names'] += 1
        self.check_all('init')
        self.trace.append(['init', start, self._filesig()])

    def _reread(self, raw):
        holder = {}

        def fn():
            holder['obj'] = self.ymod.yanny(self.lpath(self.model.bound), raw=raw)
        self._call(fn, 'ok')
        self.obj = holder['obj']
        self.after_raw_reread = bool(raw)

    def step(self, i, st):
        op = st['op']
        mdl = self.model
        outcome = 'skipped'
        extra = []
        if op == 'append':
            outcome, extra = self._append(st)
        elif op == 'write_copy':
            outcome = self._write(st['name'], explicit=True, comments=st.get('comments'), spell=st.get('spell'))
        elif op == 'write_self':
            outcome = self._write(mdl.bound, explicit=False, comments=st.get('comments'))
        elif op == 'reread':
            if mdl.bound in mdl.files:
                self._reread(bool(st.get('raw')))
                outcome = 'ok'
                extra = ['raw' if st.get('raw') else 'normal']
        elif op == 'ext_delete':
            if mdl.bound in mdl.files:
                os.remove(self.path(mdl.bound))
                mdl.deleted[mdl.bound] = mdl.files.pop(mdl.bound)
                outcome = 'ok'
        elif op == 'ext_restore':
            # the external actor puts the deleted file back, byte for byte (restore from backup)
            if mdl.bound not in mdl.files and mdl.bound in mdl.deleted:
                with open(self.path(mdl.bound), 'wb') as f:
                    f.write(mdl.deleted[mdl.bound])
                mdl.files[mdl.bound] = mdl.deleted[mdl.bound]
                outcome = 'ok'
                if self.recovery == 1:
                    self.recovery = 3
        elif op == 'ext_create_sibling':
            name = mdl.bound + st['suffix']
            if not mdl.exists(name):
                content = {'garbage': GARBAGE, 'yanny': OTHER_YANNY}[st['content']]
                with open(self.path(name), 'wb') as f:
                    f.write(content)
                mdl.files[name] = content
                outcome = 'ok'
                self.probes['bystander_named_after_bound_file'] += 1
        elif op == 'ext_create':
            if not mdl.exists(st['name']) and st['name'] != mdl.bound:
                if st['content'] == 'dir':
                    os.mkdir(self.path(st['name']))
                    mdl.files[st['name'] + os.sep] = b''
                else:
                    content = {'garbage': GARBAGE, 'yanny': OTHER_YANNY, 'empty': b''}[st['content']]
                    with open(self.path(st['name']), 'wb') as f:
                        f.write(content)
                    mdl.files[st['name']] = content
                outcome = 'ok'
        elif op == 'wnd_over':
            name = mdl.bound if st.get('target') == 'bound' else st.get('target')
            if mdl.exists(name):
                tabs, names, hdr = self._initial_args()
                outcome = self._call(lambda: self.ymod.write_ndarray_to_yanny(
                    self.lpath(name), tabs, structnames=names, enums=self._enums(), hdr=hdr), 'raise')
                self.probes['write_ndarray_over_existing'] += 1
        elif op == 'clock_jump':
            before = self.clock.now
            if st.get('freeze'):
                self.clock.ticks = [0.0]
            elif 'to' in st:
                self.clock.jump(to=st['to'])
            else:
                self.clock.jump(by=st['by'])
            if self.clock.now < before:
                self.jumped_back = True
            outcome = 'ok'
        else:
            raise ValueError('unknown op %r' % (op,))
        self.ops[op + ':' + outcome] += 1
        self.check_all(i)
        self.abstract.append([op, outcome, bool(self.obj.raw)] + extra)
        self.trace.append([i, op, outcome, self._filesig()])

    def _write(self, name, explicit, comments=None, spell=None):
        mdl = self.model
        target = self.lpath(name)
        exists = mdl.exists(name)
        if spell == 'tilde':
            # '~/name' with HOME = the scratch root, only ever onto an existing file: whether or
            # not the implementation expands '~', the request must be refused and nothing changed
            if not exists:
                return 'skipped'
            target = '~/' + name
            self.probes['write_over_existing_spelled_with_tilde'] += 1
        kw = {} if comments is None else {'comments': comments}
        fn = (lambda: self.obj.write(target, **kw)) if explicit else (lambda: self.obj.write(**kw))
        if comments is not None:
            self.probes['write_with_custom_comments'] += 1
        if exists:
            out = self._call(fn, 'raise')
            self.probes['write_over_existing'] += 1
            if name == mdl.bound:
                self.probes['write_over_own_file'] += 1
            return out
        out = self._call(fn, 'ok')
        disk = self.disk()
        if name not in disk:
            self.stop('write_new_created_nothing', 'write() returned but %s does not exist' % name)
        mdl.files[name] = disk[name]
        if name != mdl.bound:
            self.after_copy = True
            self.probes['write_copy'] += 1
        else:
            self.probes['write_self_recreates_deleted_file'] += 1
            if self.recovery == 1:
                self.recovery = 2
        mdl.bound = name
        return out

    def _append(self, st):
        mdl = self.model
        data = collections.OrderedDict()
        added_rows = []
        added_pairs = []
        mdl_wild_new = []
        extra = [st.get('case'), st.get('form')]
        # pairs first or tables first in the dict: the order inside the *file* is the
        # library's business (pairs, then tables in table order); the model appends
        # rows per table and pairs in order, which is order-insensitive across kinds.
        for k, v in st.get('pairs', []):
            if k in mdl.pair_keys() or mdl.table(k) is not None:
                continue
            data[k] = v
            added_pairs.append([k, str(v)])
            if k.startswith('wk'):
                mdl_wild_new.append(k)
        for ti, rows in sorted(st.get('rows', {}).items(), key=lambda kv: int(kv[0])):
            ti = int(ti)
            if ti >= len(mdl.tables) or not rows:
                continue
            t = mdl.tables[ti]
            rows = [r for r in rows if len(r) == len(t['columns'])]
            if not rows:
                continue
            key = t['name'].upper() if st.get('case') == 'upper' else t['name'].lower()
            form = st.get('form') or 'lists'
            if form.startswith('recarray'):
                data[key] = M.to_numpy_rows(t['columns'], rows, permute=form.endswith('permuted'))
            else:
                d = collections.OrderedDict()
                cols = list(enumerate(t['columns']))
                if form.endswith('extra'):
                    # a dict of lists with the columns in another order and an unrelated extra key
                    cols = list(reversed(cols))
                    d['zz_extra'] = [0]*len(rows)
                for ci, c in cols:
                    d[c['name']] = [M.to_python(c, r[ci], numpy_scalars=form.endswith('numpy')) for r in rows]
                data[key] = d
            added_rows.append((t, rows))
        if st.get('symbols'):
            data['symbols'] = {}
        nonempty = bool(added_rows or added_pairs)
        exists = mdl.bound in mdl.files
        if not nonempty:
            out = self._call(lambda: self.obj.append(data), 'warn' if exists else 'warn-or-raise')
            self.probes['append_empty'] += 1
            return out, extra
        if not exists:
            out = self._call(lambda: self.obj.append(data), 'raise')
            self.probes['append_to_missing'] += 1
            self.recovery = 1
            return out, extra
        old = mdl.files[mdl.bound]
        out = self._call(lambda: self.obj.append(data), 'ok')
        new = self.disk().get(mdl.bound)
        if new is None:
            self.stop('append_removed_file', 'the file vanished during a successful append')
        if not new.startswith(old):
            self.stop('append_rewrote_earlier_bytes', 'earlier bytes of %s are not a prefix of the new '
                      'content (old %d bytes, new %d bytes)' % (mdl.bound, len(old), len(new)))
        if len(new) <= len(old):
            self.stop('append_wrote_nothing', 'a non-empty append left the file unchanged')
        mdl.files[mdl.bound] = new
        for t, rows in added_rows:
            t['rows'].extend([list(r) for r in rows])
        mdl.pairs.extend(added_pairs)
        for k in mdl_wild_new:
            mdl.wild[k] = dict(added_pairs)[k]
            self.probes['append_pair_value_the_format_cannot_carry'] += 1
        # reach probes
        p = self.probes
        p['append_ok'] += 1
        if self.after_copy:
            p['append_after_copy'] += 1
        if self.after_raw_reread and self.obj.raw:
            p['append_after_raw_reread'] += 1
        if added_rows and st.get('case') == 'lower':
            p['append_lower_case_key'] += 1
        if added_rows and (st.get('form') or '').startswith('recarray'):
            p['append_recarray'] += 1
        if added_rows and (st.get('form') or '').endswith(('permuted', 'extra')):
            p['append_rows_with_other_field_order'] += 1
        for t, rows in added_rows:
            if len(t['rows']) == len(rows):
                p['append_to_zero_row_table'] += 1
            for ci, c in enumerate(t['columns']):
                if c.get('var') and M.var_width(c, t['rows'], ci) > M.var_width(c, t['rows'][:-len(rows)], ci):
                    p['append_widens_variable_length_char_column'] += 1
                if c['kind'] == 'S' and c.get('len', 0):
                    p['append_string_array_column'] += 1
                if c['kind'] == 'E':
                    p['append_enum_column'] += 1
        sec = int(self.clock.now)
        if self.last_append_second == sec:
            p['two_appends_same_simulated_second'] += 1
        self.last_append_second = sec
        if self.jumped_back:
            p['append_after_clock_jumped_back'] += 1
        if self.recovery == 2:
            p['append_after_missing_refusal_and_recreate'] += 1
        if self.recovery == 3:
            p['append_after_missing_refusal_and_external_restore'] += 1
        return out, extra


def execute(desc, scratch=None, upto=None):
    """-> {'violation': None | {...}, 'trace', 'abstract', 'probes', 'ops', 'steps_done', 'sim_seconds'}"""
    m = Machine(desc, scratch=scratch)
    viol = None
    done = 0
    try:
        m.install()
        try:
            m.init()
            for i, st in enumerate(desc['steps']):
                if upto is not None and i > upto:
                    break
                m.step(i, st)
                done += 1
        except Stop as s:
            viol = dict(s.v)
            viol['step'] = done if m.obj is not None and m.trace else -1
            viol['op'] = desc['steps'][done]['op'] if (m.trace and done < len(desc['steps'])) else 'init'
            viol['seams'] = getattr(m, '_last_seams', [])[-6:]
    finally:
        sim = m.clock.covered
        nread = m.clock.nread
        m.close()
    return {'violation': viol, 'trace': m.trace, 'abstract': m.abstract, 'probes': dict(m.probes),
            'ops': dict(m.ops), 'steps_done': done, 'sim_seconds': sim, 'clock_readings': nread,
            'seam_calls': len(m.seam_log)}
