"""C03 reference model: what the object and its file must contain after a history.

State: files {relative name -> bytes}, the name the object is bound to, ordered
header pairs, ordered tables (column descriptions + rows).  Cells are kept in
the JSON-safe encoding of the run description: ints as ints, floats as repr
strings ('1.5', 'nan', '-0.0', 'inf'), strings as str, arrays as lists.
"""
import math
import os

import numpy as np

INT_RANGE = {'i2': (-2**15, 2**15 - 1), 'i4': (-2**31, 2**31 - 1), 'i8': (-2**63, 2**63 - 1)}
YTYPE = {'i2': 'short', 'i4': 'int', 'i8': 'long', 'f4': 'float', 'f8': 'double'}


def var_width(col, rows, ci):
    """Width of a variable-length char column (`char x[]`): the longest string present."""
    w = 0
    for r in rows:
        v = r[ci]
        for x in (v if col.get('len', 0) else [v]):
            w = max(w, len(x))
    return w


def np_base(col, width=None):
    k = col['kind']
    if k == 'S':
        if col.get('var'):
            return 'S%d' % max(1, width or 0)
        return 'S%d' % col['n']
    if k == 'E':
        return 'S%d' % max(len(v) for v in col['enum'][1])
    return {'i2': '<i2', 'i4': '<i4', 'i8': '<i8', 'f4': '<f4', 'f8': '<f8'}[k]


def np_dtype(columns, rows=()):
    dt = []
    for ci, c in enumerate(columns):
        w = var_width(c, rows, ci) if c.get('var') else None
        if c.get('len', 0):
            dt.append((c['name'], np_base(c, w), (c['len'],)))
        else:
            dt.append((c['name'], np_base(c, w)))
    return np.dtype(dt)


def scalar_key(kind, v, observed=False):
    """Canonical comparable form of one scalar, from either the model encoding or
    a value found in a yanny object (numpy scalar, Python number, str, bytes)."""
    if observed and kind in YTYPE and isinstance(v, (str, bytes, np.str_, np.bytes_)):
        # a numeric cell of an object (raw or normal mode) is a number, not its text
        return 'TEXT:%r' % (v,)
    if kind in INT_RANGE:
        return int(v)
    if kind in ('f4', 'f8'):
        if isinstance(v, str):
            v = float(v)
        x = np.float32(v) if kind == 'f4' else np.float64(v)
        x = float(x)
        if math.isnan(x):
            return 'nan'
        return x.hex()
    # strings / enums
    if isinstance(v, (bytes, np.bytes_)):
        return bytes(v).decode('ascii')
    return str(v)


def cell_key(col, v, observed=False):
    if col.get('len', 0):
        return [scalar_key(col['kind'], x, observed) for x in v]
    return scalar_key(col['kind'], v, observed)


def to_python(col, v, numpy_scalars=False):
    """Model cell -> the Python value a caller would put in a list-form append; with
    numpy_scalars the caller happens to hold numpy scalars (np.str_/np.bytes_ strings,
    numpy ints and floats, a plain int for an integral float)."""
    def one(x):
        k = col['kind']
        if numpy_scalars:
            if k in INT_RANGE:
                return {'i2': np.int16, 'i4': np.int32, 'i8': np.int64}[k](int(x))
            if k == 'f4':
                return np.float32(float(x))
            if k == 'f8':
                f = float(x)
                return int(f) if (f == f and abs(f) < 1e15 and f == int(f) and str(f) not in ('-0.0',)) else np.float64(f)
            return np.str_(x) if len(str(x)) % 2 else np.bytes_(str(x).encode('ascii'))
        if k in INT_RANGE:
            return int(x)
        if k == 'f4':
            return float(np.float32(float(x)))
        if k == 'f8':
            return float(x)
        return str(x)
    if col.get('len', 0):
        return [one(x) for x in v]
    return one(v)


def to_numpy_rows(columns, rows, permute=False):
    """Rows as a record array.  With permute=True the fields come in reverse order and an
    unrelated extra field leads: fields of a record array are named, their order is the
    caller's business."""
    dt = np_dtype(columns, rows)
    if permute:
        dt = np.dtype([('zz_extra', '<i4')] + [(n, dt.fields[n][0]) for n in reversed(dt.names)])
    a = np.zeros(len(rows), dtype=dt)
    for i, row in enumerate(rows):
        for c, v in zip(columns, row):
            k = c['kind']
            if k in ('S', 'E'):
                val = [x.encode('ascii') for x in v] if c.get('len', 0) else v.encode('ascii')
            elif k in ('f4', 'f8'):
                val = [float(x) for x in v] if c.get('len', 0) else float(v)
            else:
                val = v
            a[c['name']][i] = val
    return a


class Model(object):
    def __init__(self, tables, hdr):
        self.tables = [{'name': t['name'].upper(), 'columns': t['columns'],
                        'rows': [list(r) for r in t['rows']]} for t in tables]
        self.pairs = [[k, str(v)] for k, v in hdr]
        # 'wild' pairs: values the format cannot carry verbatim (trailing '# comment',
        # surrounding blanks, '{{}}').  What they read back as is the value space's
        # business (C01/C02); here only coherence is required: object == fresh read.
        self.wild = {}
        self.files = {}
        self.deleted = {}
        self.bound = None

    def table(self, name):
        for t in self.tables:
            if t['name'] == name.upper():
                return t
        return None

    def exists(self, name):
        return name in self.files or (name + os.sep) in self.files

    def pair_keys(self):
        return [k for k, _ in self.pairs]

    def expected(self):
        """Canonical content: (pairs, [(name, [colnames], [[cell keys]])])."""
        tabs = []
        for t in self.tables:
            tabs.append([t['name'], [c['name'] for c in t['columns']],
                         [[cell_key(c, v) for c, v in zip(t['columns'], r)] for r in t['rows']]])
        return {'pairs': [[k, self.wild.get(k, v)] for k, v in self.pairs], 'tables': tabs}


def observe(obj, model):
    """Canonical content of a yanny object, using the model only for the column
    kinds (how to canonicalise a cell), never for the values.  Works for raw and
    normal mode.  Raises whatever the object raises."""
    tabs = []
    names = list(obj.tables())
    for name in names:
        mt = model.table(name)
        cols = list(obj.columns(name))
        rows = []
        data = obj[name]
        if obj.raw:
            n = len(data[cols[0]]) if cols else 0
            for c in cols:
                if len(data[c]) != n:
                    raise AssertionError('ragged raw table %s: column %s has %d rows, expected %d'
                                         % (name, c, len(data[c]), n))
        else:
            n = len(data)
        kinds = {}
        if mt is not None:
            kinds = {c['name']: c for c in mt['columns']}
        for i in range(n):
            row = []
            for c in cols:
                v = data[c][i]
                mc = kinds.get(c)
                if mc is None:
                    row.append(repr(v))
                    continue
                if mc.get('len', 0):
                    v = list(v)
                    if len(v) != mc['len']:
                        row.append(['wrong-length'] + [repr(x) for x in v])
                        continue
                row.append(cell_key(mc, v, observed=True))
            rows.append(row)
        tabs.append([name, cols, rows])
    pairs = [[k, obj[k]] for k in obj.pairs()]
    return {'pairs': pairs, 'tables': tabs}


def dtype_problems(obj, model):
    """Normal mode only: declared widths survive (short stays 2 bytes, char[n] stays n)."""
    bad = []
    if obj.raw:
        return bad
    for t in model.tables:
        if t['name'] not in obj.tables():
            continue
        have = obj[t['name']].dtype
        want = np_dtype(t['columns'], t['rows'])
        for c in t['columns']:
            nm = c['name']
            if nm not in (have.names or ()):
                bad.append('%s.%s missing' % (t['name'], nm))
                continue
            if have[nm] != want[nm]:
                bad.append('%s.%s dtype %s != %s' % (t['name'], nm, have[nm], want[nm]))
    return bad


def first_difference(got, want):
    if got['pairs'] != want['pairs']:
        return 'pairs: got %r want %r' % (got['pairs'][:8], want['pairs'][:8])
    gn = [t[0] for t in got['tables']]
    wn = [t[0] for t in want['tables']]
    if gn != wn:
        return 'table names/order: got %r want %r' % (gn, wn)
    for g, w in zip(got['tables'], want['tables']):
        if g[1] != w[1]:
            return 'columns of %s: got %r want %r' % (g[0], g[1], w[1])
        if len(g[2]) != len(w[2]):
            return 'row count of %s: got %d want %d' % (g[0], len(g[2]), len(w[2]))
        for i, (gr, wr) in enumerate(zip(g[2], w[2])):
            if gr != wr:
                for cn, a, b in zip(g[1], gr, wr):
                    if a != b:
                        return 'cell %s[%d].%s: got %r want %r' % (g[0], i, cn, a, b)
    return None


def _protect(s):
    s = str(s)
    if len(s) == 0 or '#' in s or any(ch.isspace() for ch in s):
        return '"' + s + '"'
    return s


def _num_external(v, numfmt, i):
    """Integers as other tools print them: zero padded, explicit plus sign."""
    if numfmt == 'padded' and isinstance(v, int) and not isinstance(v, bool):
        if v >= 0:
            return ('+%d' % v) if i % 3 == 2 else ('%0*d' % (len(str(v)) + 1 + i % 3, v))
        return '-%0*d' % (len(str(-v)) + i % 2, -v)
    return None


def render_external(tables, hdr, style=0, eol='\n', final_newline=True, numfmt='plain'):
    """A yanny file as somebody else's tool might have written it (the external
    actor): same conservative quoting as the library, but with variable-length
    `char x[]` declarations where a column asks for them.  Independent of pydl."""
    out = ['#%yanny', '# written by an external tool', '#']
    for k, v in hdr:
        out.append('%s %s' % (k, v))
    out.append('')
    seen = set()
    for t in tables:
        for c in t['columns']:
            if c['kind'] == 'E' and c['enum'][0] not in seen:
                seen.add(c['enum'][0])
                out.append('typedef enum {')
                vals = c['enum'][1]
                for i, v in enumerate(vals):
                    out.append('    %s%s' % (v, ',' if i < len(vals) - 1 else ''))
                out.append('} %s;' % c['enum'][0])
                out.append('')
    for t in tables:
        out.append('typedef struct {')
        for c in t['columns']:
            k = c['kind']
            if k == 'E':
                typ = c['enum'][0]
            elif k == 'S':
                typ = 'char'
            else:
                typ = YTYPE[k]
            decl = c['name']
            if c.get('len', 0):
                decl += '[%d]' % c['len']
            if k == 'S':
                decl += '[]' if c.get('var') else '[%d]' % c['n']
            out.append(('    %s %s;' if style == 0 else '\t%s\t%s;') % (typ, decl))
        out.append('} %s;' % (t['name'] if style == 0 else t['name'].lower()))
        out.append('')
    for t in tables:
        for r in t['rows']:
            cells = []
            for c, v in zip(t['columns'], r):
                if c.get('len', 0):
                    cells.append('{' + ' '.join(_num_external(x, numfmt, n) or _protect(x)
                                                for n, x in enumerate(v)) + '}')
                else:
                    cells.append(_num_external(v, numfmt, len(cells)) or _protect(v))
            out.append(' '.join([t['name']] + cells))
    return (eol.join(out) + (eol if final_newline else '')).encode('utf-8')
