"""C03: seeded generation of a run description (initial tables + a history).

The value domain is deliberately the conservative core of what a yanny file can
hold (DESIGN.md 4.2): C03 is about histories, not about the value space.
Floats are carried as repr strings so that every description is strict JSON.
"""
import random
import re
import struct

import numpy as np

ALPH = list("abcXYZ019 _-+.,:;#\t{}()[]<>=*/|&%$@!?~^'`")
_DOUBLE_BRACES = re.compile(r'\{\s*\{\s*\}\s*\}')

F8_POOL = [0.0, -0.0, 1.0, -1.5, 0.1, 1e300, -1e-300, 5e-324, 1.7976931348623157e308,
           float('inf'), float('-inf'), float('nan'), 3.141592653589793, 9007199254740992.0,
           2.2250738585072014e-308, -123456.789]
F4_POOL = [0.0, -0.0, 1.0, -1.5, 0.1, 3.4028235e38, 1e-45, 1.17549435e-38, float('inf'),
           float('-inf'), float('nan'), 3.14159274, 16777216.0, -65504.0]


def frepr(x):
    return repr(float(x))


SPECIAL = ['nan', 'inf', '-inf', 'NaN', '1e5', '0x1F', 'TB0Z', 'tb0z', 'None', 'True', ';', 'a;b', '-0', 'int',
           'char', 'struct', 'enum', '1.', '.5', '+1', '1e400', 'E', 'c00q', '0', '00', '{', 'x{y']


RARE_WS = ['\x0b', '\x0c', '\x1c', '\x1f']     # white space for str.isspace()/\\s, but neither blank nor tab


NONASCII = ['Jos\u00e9 N\u00fa\u00f1ez', '\u00b5m', 'na\u00efve', '\u65e5\u672c', '\u03a9', 'caf\u00e9 # bar']


def rstr(r, maxlen, header=False):
    if header and r.random() < 0.08:
        return r.choice(NONASCII[:5])       # keyword values only: table strings are byte strings
    if r.random() < 0.12:
        sp = [x for x in SPECIAL if len(x) <= maxlen and not x.startswith('{')]
        if sp:
            return r.choice(sp)
    n = min(r.choice([0, 0, 1, 2, 3, maxlen, maxlen]), maxlen)
    s = ''.join(r.choice(ALPH) for _ in range(n))
    if n >= 3 and r.random() < 0.06:
        k = r.randrange(1, n - 1)
        s = s[:k] + r.choice(RARE_WS) + s[k + 1:]
    if s.startswith('{'):
        s = 'x' + s[1:]
    s = s.replace('}', ')') if r.random() < 0.5 or _DOUBLE_BRACES.search(s) else s
    if header:
        s = s.replace('#', 'h').replace('\t', ' ').strip() or 'v'
    return s


def rstr_elem(r, maxlen):
    return rstr(r, maxlen).replace('}', ')')


def rfloat(r, kind):
    if kind == 'f8':
        u = r.random()
        if u < 0.6:
            return frepr(r.choice(F8_POOL))
        if u < 0.8:
            return frepr(round(r.uniform(-1e6, 1e6), r.randint(0, 9)))
        x = struct.unpack('<d', struct.pack('<Q', r.getrandbits(64)))[0]
        return frepr(x)
    u = r.random()
    if u < 0.6:
        return frepr(np.float32(r.choice(F4_POOL)))
    for _ in range(8):
        v = np.frombuffer(struct.pack('<I', r.getrandbits(32)), dtype='<f4')[0]
        if np.isnan(v):
            return 'nan'
        # keep only values whose shortest float32 text survives the double->float32 rounding
        if np.float32(float(str(v))) == v:
            return frepr(v)
    return frepr(np.float32(1.0))


def rint(r, kind):
    lo, hi = {'i2': (-2**15, 2**15 - 1), 'i4': (-2**31, 2**31 - 1), 'i8': (-2**63, 2**63 - 1)}[kind]
    return r.choice([0, 1, -1, lo, hi, r.randint(lo, hi), r.randint(-99, 99)])


def rcell(r, col):
    k = col['kind']

    def one():
        if k in ('i2', 'i4', 'i8'):
            return rint(r, k)
        if k in ('f4', 'f8'):
            return rfloat(r, k)
        if k == 'E':
            return r.choice(col['enum'][1])
        n = col['n'] + (5 if col.get('var') else 0)
        return rstr_elem(r, n) if col.get('len', 0) else rstr(r, n)
    if col.get('len', 0):
        return [one() for _ in range(col['len'])]
    return one()


WILD = ['v # trailing comment', ' lead', 'trail ', 'a\tb', '{{}}', 'x {{ }} y', '# only a comment', 'a#b',
        '"q # r"', '  ', 'v  #', 'two  blanks', '7 # seven', "it's # odd"]

COMMENTS = [None, None, None, 'short header', '# already a comment', 'x',
            ['first line', 'second line'], ['a much longer header line than the default one would ever be, '
                                            'to make the text of a copy longer than the text it replaces']]


def rname(r, prefix, k):
    pad = r.choice(['', '', '', 'x', 'y'*7, 'z'*40, 'w'*90])
    return '%s%d%s.par' % (prefix, k, pad)


def sibling(r, name):
    u = r.choice(['.tmp', '.bak', '~', '.new', '.lock', '.swp', '.orig', '.part', '.old', '#'])
    return (('.' + name + u) if u == '.swp' else (('#' + name + u) if u == '#' else name + u))


def gen_tables(r, external=False, deep=False):
    ntab = r.randint(1, 3) if not deep else r.randint(1, 5)
    shared_names = r.random() < 0.3       # the same column names in every table
    tail_names = (not shared_names) and r.random() < 0.25   # each column name is the tail of the previous one
    tables = []
    enum_used = False
    for t in range(ntab):
        ncol = r.randint(1, 6) if not deep else r.randint(1, 9)
        cols = []
        for c in range(ncol):
            kind = r.choice(['i2', 'i4', 'i8', 'f4', 'f8', 'S', 'S', 'E'])
            col = {'name': ('c%d%dq' % (t, c)) if not shared_names else ('cs%dq' % c), 'kind': kind}
            if tail_names:
                col['name'] = 'zyxwvuts'[c:] + 'c%dq' % t     # 'yxwvutsc0q' is the tail of 'zyxwvutsc0q' ...
            if kind == 'E':
                if enum_used:
                    col['kind'] = kind = 'i4'
                else:
                    enum_used = True
                    # write_ndarray_to_yanny(enums=...) is keyed by column name for ALL tables:
                    # the enum column must not share its name with a column of another table
                    col['name'] = 'ce%d%dq' % (t, c)
                    col['enum'] = ['ENUMQ7', ['EAA', 'EB', 'ECCCC'][:r.randint(2, 3)]]
            wide = r.random() < 0.06       # long lines: wide arrays, long strings
            if kind == 'S':
                col['n'] = r.randint(1, 8) if not wide else r.randint(20, 60)
            arr = r.choice([0, 0, 0, 1, 2, 4]) if not wide else r.choice([12, 30, 64])
            if arr and (kind != 'E' or arr <= 4):
                col['len'] = arr          # arrays of enum values are legal too
            cols.append(col)
        nrow = r.choice([0, 1, 1, 2, 3, 4])
        rows = [[rcell(r, c) for c in cols] for _ in range(nrow)]
        if external and nrow:
            # variable-length `char x[]` columns exist only in files written by other tools
            for ci, c in enumerate(cols):
                if c['kind'] == 'S' and r.random() < 0.6:
                    c['var'] = True
                    first = rows[0][ci]
                    if c.get('len', 0):
                        if not any(first):
                            first[0] = 'q'
                    elif not first:
                        rows[0][ci] = 'q'
        tables.append({'name': 'TB%dZ' % t, 'columns': cols, 'rows': rows})
    return tables


OPS = ['append_rows', 'append_pairs', 'append_mixed', 'append_empty', 'write_copy', 'reread',
       'write_over', 'append_missing', 'clock_jump', 'ext_create_only']


def generate(seed, tier='quick'):
    r = random.Random(seed)
    day = r.randrange(10000, 30000)
    clock = {'start': day*86400.0 + r.choice([0.0, 86399.0, 86399.5, r.uniform(0, 86400)]),
             'ticks': [r.choice([0.0, 0.0, 0.001, 0.5, 1.0, 61.0]) for _ in range(3)]}
    start = r.choice(['writer', 'writer', 'writer', 'normal', 'raw', 'external-normal', 'external-raw'])
    if r.random() < 0.1:
        clock['start'] = r.choice([1798761599.0, 1830297599.5, 951868799.0, 4102444799.0, 253402300700.0])
    tables = gen_tables(r, external=start.startswith('external'), deep=(tier == 'thorough'))
    hdr = [['k%dw' % (7 - i), rstr(r, 6, header=True)] for i in range(r.randint(0, 4))]   # not in sorted order
    if r.random() < 0.05:
        hdr.append([r.choice(['enum', 'struct', 'c00q', 'TB0', 'filename']), rstr(r, 6, header=True)])
    comments0 = r.choice(COMMENTS)
    style = r.choice([0, 0, 1])
    eol = r.choice(['\n', '\n', '\n', '\r\n'])
    final_newline = r.random() < 0.75
    numfmt = r.choice(['plain', 'plain', 'padded'])
    paths = r.choice(['abs', 'abs', 'abs', 'rel'])
    weights = {op: r.choice([0, 1, 1, 2, 4]) for op in OPS}
    weights['append_rows'] = max(weights['append_rows'], 1)
    nsteps = r.randint(3, 14)
    long_history = r.random() < (0.08 if tier != 'thorough' else 0.2)
    if long_history:
        nsteps = r.randint(20, 40) if tier != 'thorough' else r.randint(20, 80)
        weights['append_rows'] = 8
    steps = []
    nf = 1
    nx = 0
    npair = 0
    names = ['f0.par']
    # keys that collide with nothing by the rules of the format but look like they might
    specials = ['struct', 'enum', 'c00q', 'TB0', 'filename', 'raw', 'typedef_', 'tb0zz', 'char', 'k0']
    r.shuffle(specials)
    population = [op for op in OPS for _ in range(weights[op])]
    for s in range(nsteps):
        op = r.choice(population)
        if op in ('append_rows', 'append_mixed', 'append_pairs'):
            st = {'op': 'append', 'rows': {}, 'pairs': [], 'case': r.choice(['upper', 'lower']),
                  'form': r.choice(['lists', 'lists', 'lists-numpy', 'recarray', 'recarray', 'recarray-permuted',
                                    'lists-extra']),
                  'symbols': r.random() < 0.15}
            if op in ('append_rows', 'append_mixed'):
                for ti in r.sample(range(len(tables)), r.randint(1, min(2, len(tables)))):
                    nadd = r.randint(1, 3) if r.random() < 0.97 else r.choice([17, 40, 130])
                    st['rows'][str(ti)] = [[rcell(r, c) for c in tables[ti]['columns']]
                                           for _ in range(nadd)]
            if op in ('append_pairs', 'append_mixed'):
                for _ in range(r.randint(1, 2)):
                    u = r.random()
                    if u < 0.06 and specials:
                        st['pairs'].append([specials.pop(), rstr(r, 6, header=True)])
                    elif u < 0.25:
                        st['pairs'].append(['wk%dw' % npair, r.choice(WILD)])
                    else:
                        st['pairs'].append(['nk%dw' % npair, rstr(r, 6, header=True)])
                    npair += 1
            steps.append(st)
        elif op == 'append_empty':
            steps.append({'op': 'append', 'rows': {}, 'pairs': [], 'case': 'upper', 'form': 'lists',
                          'symbols': r.random() < 0.5})
        elif op == 'write_copy':
            nm = rname(r, 'f', nf)
            if r.random() < 0.3:
                # a bystander whose name is the future target plus a suffix that tools like to use
                steps.append({'op': 'ext_create', 'name': sibling(r, nm), 'content': r.choice(['garbage', 'yanny'])})
            steps.append({'op': 'write_copy', 'name': nm, 'comments': r.choice(COMMENTS)})
            names.append(steps[-1]['name'])
            nf += 1
        elif op == 'reread':
            steps.append({'op': 'reread', 'raw': r.random() < 0.5})
        elif op == 'write_over':
            u = r.random()
            if u < 0.35:
                steps.append({'op': 'write_self', 'comments': r.choice(COMMENTS)})   # own, still existing, file
            elif u < 0.7:
                steps.append({'op': 'ext_create', 'name': 'x%d.par' % nx,
                              'content': r.choice(['garbage', 'yanny', 'empty', 'dir'])})
                steps.append({'op': 'write_copy', 'name': 'x%d.par' % nx, 'comments': r.choice(COMMENTS)})
                if steps[-2]['content'] != 'dir' and r.random() < 0.25:
                    steps[-1]['spell'] = 'tilde'
                nx += 1
            elif u < 0.85 and nf > 1:
                steps.append({'op': 'write_copy', 'name': r.choice(names)})
            else:
                steps.append({'op': 'wnd_over', 'target': r.choice(['bound', 'f0.par'])})
        elif op == 'append_missing':
            steps.append({'op': 'ext_delete'})
            st = {'op': 'append', 'rows': {}, 'pairs': [], 'case': r.choice(['upper', 'lower']),
                  'form': r.choice(['lists', 'recarray']), 'symbols': False}
            if r.random() < 0.5:
                ti = r.randrange(len(tables))
                st['rows'][str(ti)] = [[rcell(r, c) for c in tables[ti]['columns']]]
            else:
                st['pairs'].append(['nk%dw' % npair, rstr(r, 6, header=True)])
                npair += 1
            steps.append(st)
            u = r.random()
            if u < 0.45:
                steps.append({'op': 'write_self', 'comments': r.choice(COMMENTS)})   # re-create from the object
            elif u < 0.75:
                steps.append({'op': 'ext_restore'})     # the external actor puts the same bytes back
            elif u < 0.88:
                steps.append({'op': 'write_copy', 'name': rname(r, 'f', nf), 'comments': r.choice(COMMENTS)})
                names.append(steps[-1]['name'])
                nf += 1
        elif op == 'clock_jump':
            u = r.random()
            if u < 0.4:
                steps.append({'op': 'clock_jump', 'by': r.choice([-1.0, -3600.0, -86400.0*365*30, 0.0,
                                                                  1.0, 86400.0, 86400.0*365*50])})
            elif u < 0.7:
                steps.append({'op': 'clock_jump', 'to': r.choice([-62135596800.0, 253402300799.0, 0.0])})
            else:
                steps.append({'op': 'clock_jump', 'by': 0.0, 'freeze': True})
        elif op == 'ext_create_only' and r.random() < 0.5:
            steps.append({'op': 'ext_create_sibling', 'content': r.choice(['garbage', 'yanny']),
                          'suffix': r.choice(['.tmp', '.bak', '~', '.new', '.lock', '.orig', '.part'])})
        elif op == 'ext_create_only':
            steps.append({'op': 'ext_create', 'name': 'x%d.par' % nx,
                          'content': r.choice(['garbage', 'yanny', 'empty'])})
            nx += 1
    return {'property': 'C03', 'seed': seed, 'clock': clock, 'tables': tables, 'hdr': hdr,
            'start': start, 'comments': comments0, 'style': style, 'eol': eol,
            'final_newline': final_newline, 'numfmt': numfmt, 'paths': paths, 'steps': steps[:(96 if tier == 'thorough' else 48) if long_history else 16],
            'weights': weights}
