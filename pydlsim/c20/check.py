"""C20: one simulated run = one world + history; record, sweep, oracle."""
import copy
import time as _walltime      # wall clock only for throughput statistics, never for decisions

from .. import util
from ..world import inject
from . import config, driver
from .driver import World, identity, occurrence, outcome_class

PROPERTY = 'C20'


def _vclass(diff):
    return sorted(diff)


def _mk_violation(world, j, diff, fault_spec, oc, history):
    return {'invocation': j, 'entry': world.invs[j]['entry'],
            'diff': {k: v for k, v in sorted(diff.items())},
            'vars': _vclass(diff), 'fault': fault_spec, 'outcome': oc,
            'history_faults': copy.deepcopy(history)}


def _fault_spec(events, k, exc, when='entry'):
    return {'k': k, 'exc': exc, 'identity': identity(events[k]), 'occ': occurrence(events, k),
            'when': when}


def run_one(seed, tier, scratch=None, max_violations=3):
    """Generate and explore one configuration.  Returns a JSON-able result."""
    desc = config.generate(seed, tier)
    return explore(desc, tier, scratch=scratch, max_violations=max_violations)


def explore(desc, tier, scratch=None, max_violations=3):
    t0 = _walltime.perf_counter()
    st = {'invocations': 0, 'recordings': 0, 'injected_runs': 0, 'l1_sites': 0, 'l2_sites': 0,
          'l1_swept': 0, 'l2_sampled': 0, 'in_window_faults': 0, 'absorbed': 0, 'diverged': 0,
          'faults_by_exc': {}, 'faults_by_when': {}, 'return_fault_not_delivered': 0, 'outcomes': {}, 'entries': {}, 'probes': {},
          'natural_failures': 0, 'clean_returns': 0, 'sim_seconds': 0.0}
    trace = []
    violations = []
    nontrivial = set()
    sites_seen = set()      # admissible call sites (caller, line, callee) seen in recordings
    sites_hit = set()       # ... at which a fault was actually delivered
    world = World(desc, parent=scratch)
    try:
        world.build()
        history = []           # resolved fault spec (or None) of every executed invocation so far
        for j, inv in enumerate(world.invs):
            entry = inv['entry']
            st['invocations'] += 1
            st['entries'][entry] = st['entries'].get(entry, 0) + 1
            world.pre_actions(j)
            world.snapshot_rw()
            # ---- recording (fault-free) -----------------------------------
            rec = world.execute(j, fault=None, keep_events=True, isolated=True)
            st['recordings'] += 1
            m = rec['monitor']
            events = m.events
            # rule 1 with per-cycle windows (1d): r = limit, tblocked = restoration mechanisms of
            # completed cycles of the touched variables, twins = their perturbed stretches
            r, tblocked, twins, open_at_r = inject.fault_windows(m)
            l1 = inject.l1_codes(m, world.entry_keys(j))
            win = driver.window_start(m)
            oc = outcome_class(world, rec)
            st['outcomes'][oc[0]] = st['outcomes'].get(oc[0], 0) + 1
            if oc[0] == 'returned':
                st['clean_returns'] += 1
            else:
                st['natural_failures'] += 1
            _probes(st, inv, rec, oc, win, events, world)
            entry_state = [inv['env'].get(v) is not None for v in config.TOUCHED[entry]]
            if rec['diff']:
                violations.append(_mk_violation(world, j, rec['diff'], None, oc, history))
            if oc[0] != 'returned' and win is not None:
                nontrivial.add(util.canon([entry, entry_state, _cfg_class(inv), oc[1:]]))
            blocked, owin, open_other = inject.other_windows(m)
            blocked = list(blocked) + list(tblocked)
            if len(tblocked) > 1 or (tblocked and any(e['adm'] and e['i'] >= tblocked[0][1] for e in events[:r])):
                st['later_cycle_invocations'] = st.get('later_cycle_invocations', 0) + 1
            if owin:
                st['probes']['other_variable_mutated_by_code_under_test'] = \
                    st['probes'].get('other_variable_mutated_by_code_under_test', 0) + 1
            for e in events[:r]:
                if e['adm'] and not any(lo <= e['i'] < hi for lo, hi in blocked):
                    sites_seen.add(util.digest(identity(e))[:10])
            plan, nl1, nl2 = driver.plan_faults(events, r, l1, win, inv, tier, entry,
                                                   agg=world.w['plots'] != 'stub', blocked=blocked, owin=owin,
                                                   still_open=open_at_r | open_other | inject.mechanism_calls(m), wins=twins)
            st['l1_sites'] += nl1
            st['l2_sites'] += nl2
            tr = {'j': j, 'entry': entry, 'n_events': len(events), 'r': r, 'win': win,
                  'events_digest': util.digest([identity(e) for e in events]),
                  'mutations': [[mu['op'], mu['key'], mu['at']] for mu in m.mutations],
                  'recording': {'outcome': oc, 'diff': rec['diff']}, 'injected': []}
            # ---- sweep ------------------------------------------------------
            for (k, exc, scope, when) in plan:
                world.restore_rw()
                f = inject.Fault(k, exc, tuple(identity(events[k])), when=when)
                res = world.execute(j, fault=f, keep_events=False, isolated=True)
                st['injected_runs'] += 1
                st['faults_by_exc'][exc] = st['faults_by_exc'].get(exc, 0) + 1
                st['faults_by_when'][when] = st['faults_by_when'].get(when, 0) + 1
                if scope == 'L1':
                    st['l1_swept'] += 1
                else:
                    st['l2_sampled'] += 1
                mm = res['monitor']
                if mm.diverged is not None:
                    st['diverged'] += 1
                    tr['injected'].append([k, exc, when, 'diverged'])
                    continue
                if mm.fired is None:
                    if when == 'return':
                        # the call raised by itself (or never returned to its frame): nothing to add
                        st['return_fault_not_delivered'] += 1
                        tr['injected'].append([k, exc, when, 'not-delivered', res['diff']])
                        if res['diff'] and len(violations) < 50:
                            violations.append(_mk_violation(world, j, res['diff'], None,
                                                            outcome_class(world, res), history))
                    else:
                        st['diverged'] += 1
                        tr['injected'].append([k, exc, when, 'diverged'])
                    continue
                oc2 = outcome_class(world, res)
                sites_hit.add(util.digest(identity(events[k]))[:10])
                inwin = driver.in_windows(k, twins, win)
                if inwin and tblocked and k >= tblocked[0][1]:
                    st['later_cycle_faults'] = st.get('later_cycle_faults', 0) + 1
                if inwin:
                    st['in_window_faults'] += 1
                    nontrivial.add(util.canon([entry, entry_state, _cfg_class(inv),
                                               [events[k]['caller'], events[k]['line'], exc, when]]))
                if oc2[0] in ('returned', 'raised-after-absorbed-fault'):
                    st['absorbed'] += 1
                st['outcomes'][oc2[0]] = st['outcomes'].get(oc2[0], 0) + 1
                tr['injected'].append([k, exc, when, oc2, res['diff']])
                if res['diff'] and len(violations) < 50:
                    violations.append(_mk_violation(world, j, res['diff'],
                                                    _fault_spec(events, k, exc, when), oc2, history))
            # ---- environment-lookup faults: flip every variable the code looked up -----------
            # "the k-th call to any collaborator (environment lookup, ...)": a lookup fails when
            # the variable is missing, and takes another branch when a missing one is present.
            base_now = world.baseline_env(j)
            flips = [k for k in m.reads if k not in driver._BASE_KEEP]
            flips = flips[:(8 if tier == 'quick' else 24)]
            for key in flips:
                if key in base_now:
                    extra = {key: None}
                else:
                    extra = {key: '$DIR' if key.endswith(('_REDUX', '_RESOLVE', '_MATCH', '_DIR', '_DATA',
                                                          '_CALIB', '_SKY', '_SWEEP')) else 'flipped'}
                world.restore_rw()
                resF = world.execute(j, fault=None, keep_events=False, env_extra=extra, isolated=True)
                st['env_lookup_flips'] = st.get('env_lookup_flips', 0) + 1
                st['recordings'] += 1
                ocF = outcome_class(world, resF)
                st['outcomes'][ocF[0]] = st['outcomes'].get(ocF[0], 0) + 1
                tr['injected'].append([key, extra[key], 'env-flip', ocF, resF['diff']])
                if ocF[0] != 'returned':
                    nontrivial.add(util.canon([entry, entry_state, _cfg_class(inv), 'env-flip', key, ocF[1:]]))
                if resF['diff'] and len(violations) < 50:
                    v = _mk_violation(world, j, resF['diff'], None, ocF, history)
                    v['env_extra'] = extra
                    violations.append(v)
            # ---- observation only: a stage that leaves through SystemExit (not an Exception) ----
            # Borderline for the statement ("an error raised by any stage"), so never a verdict;
            # counted and printed so that a restore written as `except Exception:` is at least seen.
            inwin_l1 = [e for e in events[:r] if e['adm'] and e['ckey'] in l1 and driver.in_windows(e['i'], twins, win)
                        and not any(lo <= e['i'] < hi for lo, hi in blocked)]
            for e in inwin_l1[:1] + inwin_l1[-1:] if len(inwin_l1) > 1 else inwin_l1[:1]:
                world.restore_rw()
                resX = world.execute(j, fault=inject.Fault(e['i'], 'SystemExit', tuple(identity(e))),
                                     keep_events=False, isolated=True)
                st['observation_runs_SystemExit'] = st.get('observation_runs_SystemExit', 0) + 1
                if resX['diff']:
                    st['observation_not_restored_on_SystemExit'] = \
                        st.get('observation_not_restored_on_SystemExit', 0) + 1
            # ---- chained faults: a second failure while the first is being handled ------
            nchain = {'quick': 2, 'thorough': 12}.get(tier, 2)
            if tier == 'quick' and world.w['plots'] != 'stub':
                nchain = 1
            for (kA, excA, oc2) in _pick_chain_heads(tr['injected'], events, win, inv, nchain):
                world.restore_rw()
                fA = inject.Fault(kA, excA, tuple(identity(events[kA])))
                resA = world.execute(j, fault=fA, keep_events=True, isolated=True)
                st['recordings'] += 1
                mA = resA['monitor']
                if mA.fired is None or mA.diverged is not None:
                    st['diverged'] += 1
                    continue
                rA, tbA = inject.fault_windows(mA)[:2]
                blockedA = list(inject.other_windows(mA)[0]) + list(tbA)
                path = [e for e in mA.events[kA + 1:rA] if e['adm'] and
                        not any(lo <= e['i'] < hi for lo, hi in blockedA)]
                st['exception_path_sites'] = st.get('exception_path_sites', 0) + len(path)
                cap = 4 if tier == 'quick' else 40
                for n, eB in enumerate(path[:cap]):
                    excB = (inject.OSERROR_FAMILY + inject.OTHER_FAMILY)[(n*5 + kA) % 12]
                    world.restore_rw()
                    chain = [inject.Fault(kA, excA, tuple(identity(events[kA]))),
                             inject.Fault(eB['i'], excB, tuple(identity(eB)))]
                    resB = world.execute(j, fault=chain, keep_events=False, isolated=True)
                    st['injected_runs'] += 1
                    st['chained_runs'] = st.get('chained_runs', 0) + 1
                    mB = resB['monitor']
                    if len(mB.fired_all) < 2 or mB.diverged is not None:
                        st['diverged'] += 1
                        continue
                    ocB = outcome_class(world, resB)
                    tr['injected'].append([[kA, eB['i']], [excA, excB], 'chain', ocB, resB['diff']])
                    nontrivial.add(util.canon([entry, entry_state, _cfg_class(inv), 'chain',
                                               [eB['caller'], eB['line'], excB]]))
                    if resB['diff'] and len(violations) < 50:
                        specA = _fault_spec(events, kA, excA)
                        specB = {'k': eB['i'], 'exc': excB, 'identity': identity(eB),
                                 'occ': sum(1 for e in mA.events[kA + 1:eB['i'] + 1]
                                            if identity(e) == identity(eB))}
                        violations.append(_mk_violation(world, j, resB['diff'], [specA, specB], ocB,
                                                        history))
            # ---- the execution that actually advances the history -----------
            world.restore_rw()
            sel = driver.resolve_selector(inv.get('fault'), events, r, l1, win, blocked=blocked)
            if sel is None:
                spec = None
                res = world.execute(j, fault=None, keep_events=False)
            else:
                when3 = sel[2] if sel[0] not in (open_at_r | open_other | inject.mechanism_calls(m)) else 'entry'
                spec = _fault_spec(events, sel[0], sel[1], when3)
                res = world.execute(j, fault=inject.Fault(sel[0], sel[1], tuple(spec['identity']), when=when3),
                                    keep_events=False)
                st['injected_runs'] += 1
            oc3 = outcome_class(world, res)
            tr['advance'] = {'fault': spec, 'outcome': oc3, 'diff': res['diff']}
            if res['diff'] and len(violations) < 50:
                violations.append(_mk_violation(world, j, res['diff'], spec, oc3, history))
            history.append(spec)
            trace.append(tr)
        if not world.ro_intact():
            raise RuntimeError('harness: read-only survey tree was modified')
        st['sim_seconds'] = world.sim_seconds
    finally:
        world.close()
    out = {'seed': desc['seed'], 'digest': util.digest(trace), 'stats': st,
           'nontrivial': sorted(nontrivial), 'n_violations': len(violations),
           'sets': {'call_sites_admissible': sorted(sites_seen), 'call_sites_injected': sorted(sites_hit)},
           'wall_s': _walltime.perf_counter() - t0}
    out['violations'] = [dict(v, desc=replay_desc(desc, v)) for v in violations[:max_violations]]
    out['sample'] = {'world': _brief(desc), 'trace': trace[:1]}
    return out


def _pick_chain_heads(injected, events, win, inv, n):
    """First faults whose handling we then disturb: in-window, delivered, distinct call
    sites, spread over the run (first, last, middle ...)."""
    heads = []
    seen = set()
    for rec in injected:
        if len(rec) < 5 or not isinstance(rec[0], int) or rec[2] != 'entry' or not isinstance(rec[3], list):
            continue
        k, exc, oc = rec[0], rec[1], rec[3]
        if win is None or k < win:
            continue
        site = (events[k]['caller'], events[k]['line'])
        if site in seen:
            continue
        seen.add(site)
        heads.append((k, exc, oc))
    if len(heads) <= n:
        return heads
    idx = sorted(set(int(round(i*(len(heads) - 1)/float(max(1, n - 1)))) for i in range(n)))
    return [heads[i] for i in idx]


def _cfg_class(inv):
    if inv['entry'] == 'template_input':
        p = inv['par']
        return [dict(p['pairs']).get('object'), dict(p['pairs']).get('method'), p['variant'],
                inv.get('dump') if isinstance(inv.get('dump'), str) else 'truncate']
    return [inv.get('rescore'), inv.get('score'), inv.get('pre')]


def _brief(desc):
    w = desc['world']
    return {'seed': desc['seed'], 'plots': w['plots'],
            'plates': [[p['plate'], p['mjd'], p['nfib'], p.get('masks'), p.get('damage')]
                       for p in w['spectro']['plates']],
            'fields': len(w['photo']['fields']),
            'invocations': [{'entry': i['entry'], 'env': i['env'],
                             'cfg': _cfg_class(i)} for i in desc['invocations']]}


def _probes(st, inv, rec, oc, win, events, world):
    p = st['probes']

    def hit(name):
        p[name] = p.get(name, 0) + 1
    entry = inv['entry']
    if entry == 'template_input':
        if oc[0] == 'returned':
            hit('template_input_success')
            if inv['par']['variant'] != 'valid':
                hit('template_input_success_' + inv['par']['variant'])
            for v in ('RUN2D', 'RUN1D'):
                if inv['env'].get(v) is None:
                    hit('success_with_%s_unset' % v)
        if oc[0] != 'returned' and win is not None:
            hit('natural_failure_in_window')
            if oc[1] == 'template_metadata':
                hit('natural_failure_inside_template_metadata_after_env_set')
            if oc[3] in ('EOFError', 'UnpicklingError'):
                hit('torn_dump_unpickle_error')
        if win is not None and any(mu['op'] == 'set' for mu in rec['monitor'].mutations):
            sp = world.w['spectro']
            if inv['env'].get('RUN2D') == sp['run2d']:
                hit('par_run2d_equals_current_RUN2D')
        if inv.get('dump') == 'keep' and world.invs.index(inv) > 0:
            hit('invocation_after_previous_invocation')
            if any(e['callee'].endswith('pickle.load') or e['callee'].endswith('_pickle.load') for e in events):
                hit('dump_of_previous_invocation_loaded')
                if '+alt_run' in inv['par']['variant']:
                    hit('dump_loaded_under_edited_parameter_file')
    else:
        if oc[0] == 'returned':
            hit(entry + '_success')
        if entry == 'window_read' and win is not None:
            hit('window_read_reaches_window_score')
        if inv['env'].get('PHOTO_CALIB') is None:
            hit('window_with_PHOTO_CALIB_unset')
        if any('Retrying' in str(e.get('callee')) for e in ()):
            pass
    stages = {'readspec': 'stage_reading', 'skymask': 'stage_skymask',
              'preprocess_spectra': 'stage_resampling', 'combine1fiber': 'stage_resampling',
              'pca_solve': 'stage_solving', 'HMF.solve': 'stage_solving',
              'plot_eig': 'stage_plotting', 'sdss_score': 'stage_scoring',
              'template_qso': 'stage_solving', 'template_star': 'stage_solving'}
    seen = set()
    for e in events:
        nm = e['callee'].rsplit('.', 1)[-1] if not e['callee'].endswith('.solve') else 'HMF.solve'
        if nm in stages and stages[nm] not in seen:
            seen.add(stages[nm])
            hit(stages[nm] + '_reached')
        if e['callee'].endswith('writeto') and 'stage_writing' not in seen:
            seen.add('stage_writing')
            hit('stage_writing_reached')


def replay_desc(desc, v):
    """A self-contained history that ends with the violating invocation."""
    j = v['invocation']
    d = {'property': PROPERTY, 'seed': desc['seed'], 'tier': desc.get('tier', 'quick'),
         'world': copy.deepcopy(desc['world']),
         'invocations': copy.deepcopy(desc['invocations'][:j + 1])}
    for i in range(j):
        d['invocations'][i]['fault'] = copy.deepcopy(v['history_faults'][i])
    d['invocations'][j]['fault'] = copy.deepcopy(v['fault'])
    if v.get('env_extra'):
        ex = dict(d['invocations'][j].get('env_extra') or {})
        ex.update(v['env_extra'])
        d['invocations'][j]['env_extra'] = ex
    d['expect'] = {'invocation': j, 'vars': v['vars'], 'diff': v['diff']}
    return d


def replay(desc, scratch=None):
    """Re-execute a replay description (explicit faults, no PRNG, no sweep).
    -> {'violation': {...}|None, 'diverged': bool, 'trace_digest': ...}"""
    world = World(desc, parent=scratch)
    trace = []
    viol = None
    diverged = False
    try:
        world.build()
        for j, inv in enumerate(world.invs):
            world.pre_actions(j)
            spec = inv.get('fault')
            if isinstance(spec, dict) and 'identity' not in spec:
                spec = None          # an unresolved selector: treat as fault-free
            f = driver.fault_from_spec(spec)
            res = world.execute(j, fault=f, keep_events=False)
            oc = outcome_class(world, res)
            nwant = len(f) if isinstance(f, list) else (1 if f is not None else 0)
            if len(res['monitor'].fired_all) < nwant:
                diverged = True
            trace.append([j, inv['entry'], oc, res['diff']])
            if res['diff'] and viol is None:
                viol = {'invocation': j, 'entry': inv['entry'], 'vars': _vclass(res['diff']),
                        'diff': res['diff'], 'outcome': oc, 'fault': spec}
    finally:
        world.close()
    return {'violation': viol, 'diverged': diverged, 'trace_digest': util.digest(trace),
            'trace': trace}


def same_class(v, expect):
    return v is not None and v['vars'] == expect['vars']


def shrink(desc, scratch=None, budget=60):
    """Greedy reduction of a replay description while the same variables leak."""
    expect = desc['expect']
    best = copy.deepcopy(desc)
    used = [0]

    def ok(cand):
        if used[0] >= budget:
            return False
        used[0] += 1
        try:
            # in a forked child: a replay must not inherit module-level state from the previous one
            r = util.run_forked(lambda: replay(cand, scratch=scratch))
        except Exception:
            return False
        return same_class(r['violation'], expect)

    def attempt(mut):
        cand = copy.deepcopy(best)
        try:
            if mut(cand) is False:
                return False
        except (KeyError, IndexError, TypeError):
            return False
        if util.canon(cand) == util.canon(best):
            return False
        if ok(cand):
            best.clear()
            best.update(cand)
            return True
        return False

    # 1. drop earlier invocations (keep the last, violating, one)
    while len(best['invocations']) > 1:
        def drop_first(c):
            c['invocations'] = c['invocations'][1:]
            c['expect'] = dict(c['expect'], invocation=len(c['invocations']) - 1)
        if not attempt(drop_first):
            break
    for i in range(len(best['invocations']) - 2, -1, -1):
        def drop_i(c, i=i):
            del c['invocations'][i]
            c['expect'] = dict(c['expect'], invocation=len(c['invocations']) - 1)
        attempt(drop_i)
    # 2. simplify the world
    attempt(lambda c: c['world'].__setitem__('bystanders', {}))
    attempt(lambda c: c['world'].__setitem__('plots', 'stub'))

    def undamage(c):
        for p in c['world']['spectro']['plates']:
            for k in ('damage', 'photo_damage', 'z_damage'):
                p.pop(k, None)
            p['masks'] = 'u8'
        c['world']['photo'].pop('flist_damage', None)
        for f in c['world']['photo']['fields']:
            f['fpfieldstat'] = 'ok'
            f['psfield'] = 'ok'
    attempt(undamage)
    attempt(lambda c: c['world']['spectro'].__setitem__('plates', c['world']['spectro']['plates'][:2]))
    attempt(lambda c: c['world']['photo'].__setitem__('fields', c['world']['photo']['fields'][:1]))
    # 3. simplify the invocations
    for i in range(len(best['invocations'])):
        def envok(c, i=i):
            for k, v in c['invocations'][i]['env'].items():
                if v in ('unset', 'nodir'):
                    c['invocations'][i]['env'][k] = 'ok'
        attempt(envok)
        for key, val in (('dump', 'absent'), ('flux', False), ('verbose', False), ('pre', None),
                         ('score', 'stub')):
            def setk(c, i=i, key=key, val=val):
                if key not in c['invocations'][i]:
                    return False
                c['invocations'][i][key] = val
            attempt(setk)

        if i < len(best['invocations']) - 1:
            attempt(lambda c, i=i: c['invocations'][i].__setitem__('fault', None))
    # 4. simplify the fault: plain RuntimeError, first occurrence
    last = len(best['invocations']) - 1
    lf = best['invocations'][last].get('fault')
    if isinstance(lf, list):
        # a chain: is the second fault needed at all?
        attempt(lambda c: c['invocations'][last].__setitem__('fault', c['invocations'][last]['fault'][0]))
        lf = best['invocations'][last].get('fault')
    if isinstance(lf, dict):
        attempt(lambda c: c['invocations'][last]['fault'].__setitem__('exc', 'RuntimeError'))
        attempt(lambda c: c['invocations'][last]['fault'].__setitem__('occ', 1))
    elif isinstance(lf, list):
        for i in range(len(lf)):
            attempt(lambda c, i=i: c['invocations'][last]['fault'][i].__setitem__('exc', 'RuntimeError'))
    best['shrink_replays'] = used[0]
    return best



# ---------------------------------------------------------------------------
TIERS = {
    'quick': {'runs': 72, 'deadline': 110.0, 'min_runs': 24},
    'thorough': {'runs': 640, 'deadline': 2700.0, 'min_runs': 100},
}

RULE = ("One run = one seeded world (synthetic spectro + photo survey trees with storage damage, 10-20 "
        "bystander variables plus 18 well-known knob variables present/absent at random, the matplotlib "
        "backend in effect, a simulated clock) and a history of 1-4 invocations of template_input / "
        "window_score / window_read(rescore) sharing one workspace and one process, each with a drawn "
        "entry state of RUN2D, RUN1D, PHOTO_CALIB (unset, sentinel, empty string, equal to the value "
        "the code will set, equal up to case, values on which path/blank normalisation is not the "
        "identity) and of the required variables; 20 % of the histories are scenarios in which a run "
        "that gets as far as writing its dump file is followed by runs over the same workspace with "
        "the same, an edited or another parameter file. Every invocation is first recorded fault-free "
        "under sys.monitoring (CALL + PY_START events of all pydl code, every os.environ mutation), "
        "then re-executed from a workspace snapshot once per planned fault: every admissible first-"
        "level call site three times (exception on entry: one OSError-family, one other; exception "
        "on return after the collaborator completed its effect; in the quick tier the matplotlib "
        "sites of real-Agg configurations are sampled 1 in 6), a call-site-stratified seeded sample "
        "of deeper sites (all of them for window_*; sites inside the window of any other variable "
        "the code mutates first), for a few delivered faults a second fault at each call site that "
        "only exists on the failure path (chained faults), then once more with the history's own "
        "drawn fault to advance the workspace. evaluations = recordings + injected executions; "
        "after each one os.environ and the C-level environ must equal their snapshots taken immediately "
        "before. Code that perturbs and restores several times per call is probed in every cycle (rule 1d). A case is "
        "non-trivial when the failure (natural or injected) happened inside the perturbed window, "
        "i.e. after the first mutation of a touched variable; distinct = distinct (entry point, "
        "set/unset entry state of the touched variables, configuration class, failing call site "
        "(function, line), exception type, entry/return/chain) tuples.")

REAL_VS_STUB = {
    'real': ['pydl.photoop.window.window_score / window_read', 'pydl.photoop.window.sdss_score (score=real runs)',
             'pydl.photoop.sdssio', 'pydl.pydlspec2d.spec1d.template_input / template_metadata / readspec / '
             'skymask / preprocess_spectra / pca_solve / HMF / template_qso / template_star / plot_eig',
             'pydl.pydlspec2d.spec2d.combine1fiber', 'pydl.pydlutils (yanny, bspline, math, image, sdss_flagval)',
             'astropy.io.fits / astropy.table / astropy.wcs', 'pickle', 'kernel filesystem in a scratch directory',
             'os.environ of the worker process', 'matplotlib Agg backend (plots=agg runs)'],
    'stub': ['matplotlib.pyplot + FontProperties bound in spec1d (plots=stub runs): recording stub that writes '
             'placeholder png files', 'window.sdss_score (score=stub runs only, so that window_score can succeed: '
             'the real one always raises on NumPy 2)', 'pydlutils.sdss.maskbits cache: synthetic dict instead of a download'],
    'simulated': ['wall clock behind spec1d.time / window.time / goddard.astro.time (SimClock)',
                  'NumPy global RNG (seeded per invocation)', 'process environment baseline (reset before every execution)',
                  'fault injector: exception raised at the k-th collaborator call',
                  'storage faults: missing / zero-length / truncated / bit-flipped / garbage files, torn or '
                  'stale dump file between invocations, pre-existing output file or directory'],
}

ASSUMPTIONS = [
    "A collaborator failure is an Exception subclass raised on entry of the call, or as the call returns after "
    "completing its effect; failure after *partial* effect lies between the two and is approximated by deeper "
    "call sites and by damaged files. One fault per invocation, except the deliberate [A, B] chains.",
    "Fault points are restricted to events before the restoration mechanism starts (DESIGN.md 5.4 rules 1, 1b, 1c), to "
    "'stage' callees (rule 2: not methods of builtin containers, path-string helpers, logging or os.environ "
    "itself), one per invocation (rule 3).",
    "Only call sites inside pydl code are fault points; first-level sites are swept completely per explored "
    "configuration, deeper sites and the configuration space are seeded samples.",
    "Observation: dict(os.environ) and the C library's environ array (ctypes), both immediately before and after "
    "each execution; a change made behind the mapping (os.putenv/os.unsetenv, setenv(3) in an extension) is reported "
    "as 'libc:NAME'.",
    "KeyboardInterrupt/SystemExit are not injected: the property speaks of errors raised by stages.",
]

PROBES = ['dump_of_previous_invocation_loaded', 'dump_loaded_under_edited_parameter_file', 'template_input_success', 'success_with_RUN2D_unset', 'success_with_RUN1D_unset',
          'natural_failure_in_window', 'natural_failure_inside_template_metadata_after_env_set',
          'torn_dump_unpickle_error', 'par_run2d_equals_current_RUN2D',
          'invocation_after_previous_invocation', 'window_score_success', 'window_read_success',
          'window_read_reaches_window_score', 'window_with_PHOTO_CALIB_unset', 'stage_reading_reached',
          'stage_skymask_reached', 'stage_resampling_reached', 'stage_solving_reached',
          'stage_plotting_reached', 'stage_writing_reached', 'stage_scoring_reached']


def signature(v):
    """What identifies a violation for known-finding matching."""
    oc = v.get('outcome') or []
    origin = {'function': oc[1], 'exc': oc[3]} if len(oc) >= 4 else None
    site = None
    if v.get('fault'):
        f = v['fault']
        site = [x['identity'] for x in f] if isinstance(f, list) else f['identity']
    return {'entry': v['entry'], 'vars': v['vars'], 'origin': origin, 'site': site}


def dedup_key(sig):
    """At most one reported replay per (entry point, leaked variables, failing function)."""
    return [sig['entry'], sig['vars'], (sig.get('origin') or {}).get('function')]
