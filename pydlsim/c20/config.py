"""C20: seeded generation of a run description (world + history of invocations).

Every choice is drawn from one random.Random in a fixed order; the result is a
plain JSON-able dict from which the run can be re-executed without the PRNG.
"""
import copy
import random
import string

from ..world import inject

TOUCHED = {'template_input': ('RUN2D', 'RUN1D'),
           'window_score': ('PHOTO_CALIB',),
           'window_read': ('PHOTO_CALIB',)}

KNOBS = ['DISPLAY', 'WAYLAND_DISPLAY', 'OMP_NUM_THREADS', 'OPENBLAS_NUM_THREADS', 'MKL_NUM_THREADS', 'NUMEXPR_NUM_THREADS', 'MPLBACKEND',
         'PYDL_DEBUG', 'IDLUTILS_DIR', 'IDLSPEC2D_DIR', 'PHOTO_DATA', 'PHOTO_SKY', 'PHOTO_SWEEP',
         'BOSS_PHOTOOBJ', 'SPECTRO_DATA', 'RUN2D_SAVE', 'PHOTO_CALIB_SAVE', 'LC_NUMERIC']

RUN_VALUES = ['v9_9_9', 'v5_7_0', '26', '103']     # numeric ones select SPECTRO_REDUX


def _name(r, n):
    return ''.join(r.choice(string.ascii_uppercase + '_') for _ in range(n))


def _damage(r, kinds=('missing', 'zero', 'truncate', 'flip', 'garbage')):
    k = r.choice(kinds)
    d = {'kind': k}
    if k in ('truncate', 'flip'):
        d['frac'] = round(r.random(), 4)
    if k == 'flip':
        d['mask'] = r.choice([1, 0x20, 0x55, 0x80, 0xff])
    return d


def gen_world(r, tier):
    w = {}
    w['np_seed'] = r.randrange(2**31)
    # clock: start instants include the second before an MJD rollover (00:00 UTC)
    day = r.randrange(15000, 25000)
    start = day*86400.0 + r.choice([0.0, 43200.0, 86399.0, 86399.6, r.uniform(0, 86400)])
    if r.random() < 0.1:
        start = r.choice([1798761599.0, 1830297599.5, 951868799.0, 4102444799.0])   # year ends, 29 Feb 2000, 2099
    w['clock'] = {'start': start,
                  'ticks': [r.choice([0.0, 0.001, 0.25, 0.5, 1.0, 3600.0]) for _ in range(4)]}
    w['plots'] = 'agg' if r.random() < (0.25 if tier == 'thorough' else 0.08) else 'stub'
    # which matplotlib backend is configured in this process: a file backend, or something else
    w['mpl_backend'] = 'agg' if (w['plots'] == 'agg' or r.random() < 0.8) else 'module://pydlsim.world.nullbackend'
    nb = r.randint(10, 20)
    by = {}
    for _ in range(nb):
        by['BY_' + _name(r, r.randint(3, 10))] = ''.join(
            r.choice(string.ascii_letters + string.digits + '/:= ._-') for _ in range(r.randint(0, 24)))
    # well-known knobs a stage might be tempted to pin "temporarily": present or absent at random
    for k in KNOBS:
        u = r.random()
        if u < 0.45:
            by[k] = r.choice(['1', '4', '8', 'Agg', '/some/dir', ''])
    w['bystanders'] = by
    run2d = r.choice(RUN_VALUES)
    run1d = run2d if r.random() < 0.7 else r.choice(RUN_VALUES)
    nplates = r.randint(2, 3)
    npix = r.randint(140, 220)
    plates = []
    base = r.randint(1000, 9000)
    # world-level switches: readspec only succeeds when all plates agree on the
    # presence of photoPlate / spZbest files; mixing them is a (rare) natural failure
    masks = 'u8' if r.random() < 0.85 else r.choice(['i4', 'i8'])
    photoplate = r.random() < 0.7
    zbest = r.random() < 0.5
    mixed = r.random() < 0.08
    damaged = r.randrange(nplates) if r.random() < 0.15 else -1
    for p in range(nplates):
        pl = {'plate': base + p, 'mjd': r.randint(51600, 58000), 'nfib': r.randint(6, 12),
              'masks': masks, 'photoplate': photoplate, 'zbest': zbest,
              'skybits': r.random() < 0.3, 'nbadpix': r.choice([0, 0, 0, 3]),
              'nan_flux': r.random() < 0.06}
        if mixed and p == 0:
            if r.random() < 0.5:
                pl['photoplate'] = not photoplate
            else:
                pl['zbest'] = not zbest
        if r.random() < 0.04:
            pl['no_coeff'] = True
        if p == damaged:
            which = r.choice(['damage', 'damage', 'photo_damage', 'z_damage'])
            if which == 'damage':
                pl['damage'] = _damage(r)
            elif which == 'photo_damage' and pl['photoplate']:
                pl['photo_damage'] = _damage(r, ('zero', 'truncate', 'garbage'))
            elif which == 'z_damage' and pl['zbest']:
                pl['z_damage'] = _damage(r, ('zero', 'truncate', 'garbage'))
        plates.append(pl)
    w['spectro'] = {'run2d': run2d, 'run1d': run1d, 'npix': npix, 'c0': 3.6, 'c1': 1e-4,
                    'noise_seed': r.randrange(2**31), 'plates': plates}
    nf = r.choice([1, 2, 3, 4, 4, 6, 8])
    fields = []
    for i in range(nf):
        f = {'run': r.choice([94, 1000, 2000, 3704]), 'camcol': r.randint(1, 6),
             'field': r.randint(11, 400), 'xbin': r.choice([1, 1, 1, 2])}
        u = r.random()
        f['fpfieldstat'] = 'ok' if u < 0.7 else ('missing' if u < 0.85 else _damage(r, ('zero', 'truncate', 'garbage')))
        u = r.random()
        f['psfield'] = 'ok' if u < 0.8 else ('missing' if u < 0.9 else _damage(r, ('zero', 'truncate', 'garbage')))
        fields.append(f)
    ph = {'rerun': r.choice(['301', '137', '40']), 'fields': fields}
    if r.random() < 0.12:
        ph['flist_damage'] = _damage(r)
    w['photo'] = ph
    return w


def gen_par(r, w):
    sp = w['spectro']
    obj = r.choice(['gal', 'gal', 'gal', 'gal', 'qso', 'star', 'star'])
    method = r.choice(['pca', 'pca', 'hmf'])
    npix = sp['npix']
    wavemin = 10**(sp['c0'] + 0.0075)
    wavemax = 10**(sp['c0'] + sp['c1']*(npix - 25))
    pairs = [['object', obj], ['method', method],
             ['wavemin', '%.2f' % wavemin], ['wavemax', '%.2f' % wavemax],
             ['snmax', '100'], ['niter', str(r.randint(2, 4))], ['nkeep', str(r.choice([4, 4, 4, 5, 2]))],
             ['minuse', str(r.choice([1, 3, 3, 3, 3, 50]))], ['aesthetics', r.choice(['mean', 'mean', 'noise', 'damp', 'nothing'])],
             ['run2d', sp['run2d']], ['run1d', sp['run1d']]]
    u0 = r.random()
    if u0 < 0.12:
        pairs.append(['binsz', '1.0e-4'])          # optional keyword, honoured
    elif u0 < 0.18:
        pairs.append(['binsz', 'abc'])             # optional keyword, unusable (falls back)
    elif u0 < 0.24:
        pairs.append(['comment', 'free text # with a hash'])
    if method == 'hmf':
        pairs += [['epsilon', r.choice(['-1.0', '0.5'])], ['nonnegative', r.choice(['0', '0', '1'])]]
    # rows: a few fibres from each plate
    rows = []
    classes = ['A', 'F', 'K']
    still = r.random() < 0.6      # stars at rest: output grid == input grid
    for pl in sp['plates']:
        nf = r.randint(2, min(5, pl['nfib']))
        fibs = sorted(r.sample(range(1, pl['nfib'] + 1), nf))
        for fb in fibs:
            if obj == 'star':
                c = r.choice(classes)
                rows.append([pl['plate'], pl['mjd'], fb, 0.0 if still else round(r.uniform(-200, 200), 3), c,
                             c + str(r.randint(0, 2))])
            else:
                rows.append([pl['plate'], pl['mjd'], fb, round(r.uniform(0, 0.004), 6)])
    if obj == 'star':
        cols = [['int', 'plate'], ['int', 'mjd'], ['int', 'fiberid'], ['double', 'cz'],
                ['char', 'class[4]'], ['char', 'subclass[6]']]
    else:
        cols = [['int', 'plate'], ['int', 'mjd'], ['int', 'fiberid'], ['double', 'zfit']]
    par = {'pairs': pairs, 'table': {'columns': cols, 'rows': rows}, 'variant': 'valid'}
    # malformed variants (natural failures at various depths)
    u = r.random()*0.55 + 0.45 if r.random() < 0.42 else 0.0
    if u < 0.45:
        pass
    elif u < 0.53:
        k = r.choice(['object', 'method', 'wavemin', 'niter', 'nkeep', 'run2d', 'run1d', 'aesthetics'])
        par['pairs'] = [p for p in pairs if p[0] != k]
        par['variant'] = 'missing:' + k
    elif u < 0.60:
        k = r.choice(['wavemin', 'wavemax', 'snmax', 'niter', 'nkeep', 'minuse'])
        par['pairs'] = [[a, ('xyz' if a == k else b)] for a, b in pairs]
        par['variant'] = 'nonnumeric:' + k
    elif u < 0.68:
        # hmf keywords missing: fails after RUN2D/RUN1D were set, inside template_metadata
        par['pairs'] = [[a, ('hmf' if a == 'method' else b)] for a, b in pairs
                        if a not in ('epsilon', 'nonnegative')]
        if r.random() < 0.5:
            par['pairs'].append(['epsilon', 'abc'])
        par['variant'] = 'hmf_incomplete'
    elif u < 0.73:
        par['table'] = None
        par['variant'] = 'no_table'
    elif u < 0.80:
        row = list(rows[0])
        row[2] = 999
        par['table'] = {'columns': cols, 'rows': rows + [row]}
        par['variant'] = 'bad_fibre'
    elif u < 0.85:
        row = list(rows[0])
        row[0] = 17
        par['table'] = {'columns': cols, 'rows': rows + [row]}
        par['variant'] = 'bad_plate'
    elif u < 0.90:
        par['pairs'] = [[a, ('unknown' if a == 'method' else b)] for a, b in pairs]
        par['variant'] = 'unknown_method'
    elif u < 0.94:
        par['pairs'] = [[a, ('v0_0_0' if a == 'run2d' else b)] for a, b in pairs]
        par['variant'] = 'other_run2d'
    elif u < 0.97:
        par['damage'] = _damage(r, ('missing', 'zero', 'truncate', 'garbage'))
        par['variant'] = 'damaged'
    else:
        par['pairs'] = [[a, ('Gal' if a == 'object' else b)] for a, b in pairs]
        par['variant'] = 'object_case'
    if par['variant'] == 'valid':
        u2 = r.random()
        if u2 < 0.06:
            par['pairs'] = [[a, ('"%s"' % b if a == 'run2d' else b)] for a, b in pairs]
            par['variant'] = 'quoted_run2d'
        elif u2 < 0.14 and obj != 'star':
            par['table'] = {'columns': [c if c[1] != 'zfit' else ['double', 'cz'] for c in cols],
                            'rows': [row[:3] + [round(row[3]*299792.458, 3)] for row in rows]}
            par['variant'] = 'valid_cz_column'
        elif u2 < 0.18:
            par['pairs'] = [p_ for p_ in par['pairs'] if p_[0] != 'run1d'] + [['run1d', sp['run1d']]]
            par['variant'] = 'valid_run1d_last'
    return par


def _env_state(r, weights=(0.7, 0.15, 0.15)):
    u = r.random()
    if u < weights[0]:
        return 'ok'
    if u < weights[0] + weights[1]:
        return 'unset'
    return 'nodir'


def _touched_state(r, same_as=None, p_unset=0.32):
    """Entry state of a touched variable: unset, or set to - the value the code itself will
    set (no visible perturbation), that value up to case, the empty string (a falsy "set"
    state), a value on which common "harmless" normalisations are not the identity, or a
    distinct sentinel."""
    u = r.random()
    v = r.random()
    odd = r.choice(['/data/calib/', '/a//b', '/x/./y', './rel/', ' padded ', 'MixedCase', 'with space',
                    'v5_7_0 ', '~/calib', '$HOME/calib', 'C:\\calib\\', 'caf\u00e9'])
    sentinel = 'orig_' + _name(r, 4)
    if u < p_unset:
        return None
    options = [(0.10, ''), (0.16, odd), (0.50, sentinel)]
    if same_as is not None:
        options.append((0.18, same_as))
        if same_as.upper() != same_as:
            options.append((0.06, same_as.upper()))
    total = sum(w_ for w_, _ in options)
    acc = 0.0
    for w_, val in options:
        acc += w_/total
        if v < acc:
            return val
    return sentinel


def _fault_draw(r, tier):
    """Pre-drawn fault selector, resolved to an event index after the recording."""
    if r.random() < 0.55:
        return None
    return {'u': round(r.random(), 6), 'scope': r.choice(['L1', 'L2', 'L2']),
            'window': r.random() < 0.8, 'when': r.choice(['entry', 'entry', 'return']),
            'exc': r.choice(inject.OSERROR_FAMILY + inject.OTHER_FAMILY)}


def gen_invocation(r, w, tier, j, stratum=0, force=None):
    u = r.random()
    if force == 'template_input':
        u = 0.0
    sp = w['spectro']
    if u < 0.55:
        par = gen_par(r, w)
        if j > 0 and r.random() < 0.3:
            # the parameter file was edited between two invocations: another reduction version
            alt = r.choice([v for v in RUN_VALUES if v != sp['run2d']])
            par['pairs'] = [[a, (alt if a in ('run2d', 'run1d') else b)] for a, b in par['pairs']]
            par['variant'] = par['variant'] + '+alt_run'
        inv = {'entry': 'template_input', 'par': par,
               'flux': r.random() < 0.3, 'verbose': r.random() < 0.2}
        env = {'RUN2D': _touched_state(r, sp['run2d']), 'RUN1D': _touched_state(r, sp['run1d'])}
        # which of the two redux roots this parameter file needs depends on run2d
        try:
            int(dict(inv['par']['pairs']).get('run2d', sp['run2d']))
            needed, other = 'SPECTRO_REDUX', 'BOSS_SPECTRO_REDUX'
        except ValueError:
            needed, other = 'BOSS_SPECTRO_REDUX', 'SPECTRO_REDUX'
        patterns = [('ok', 'ok'), ('ok', 'ok'), ('ok', 'unset'), ('ok', 'unset'), ('unset', 'ok'),
                    ('nodir', 'ok'), ('unset', 'unset'), ('ok', 'nodir'), None]
        # the first invocation's pattern is stratified by the seed, later ones are drawn
        pat = patterns[stratum % len(patterns)] if j == 0 else r.choice(patterns)
        drawn = (_env_state(r, (0.6, 0.2, 0.2)), _env_state(r, (0.6, 0.2, 0.2)))
        env[needed], env[other] = pat if pat is not None else drawn
        env['SPECTRO_MATCH'] = _env_state(r, (0.5, 0.4, 0.1))
        env['PHOTO_RESOLVE'] = _env_state(r, (0.5, 0.4, 0.1))
        inv['env'] = env
        # how the caller names the dump file: absolute, relative to the cwd, pathlib.Path,
        # or inside a directory that does not exist (fails when the dump is written)
        inv['dumparg'] = r.choice(['abs', 'abs', 'abs', 'rel', 'path', 'nodir'])
        u2 = r.random()
        if u2 < 0.55:
            inv['dump'] = 'keep'
        elif u2 < 0.82:
            inv['dump'] = 'absent'
        elif u2 < 0.87:
            inv['dump'] = 'empty'
        elif u2 < 0.94:
            inv['dump'] = {'truncate': round(r.random(), 4)}
        elif u2 < 0.97:
            inv['dump'] = 'garbage'
        else:
            inv['dump'] = 'wrongshape'
    else:
        entry = 'window_score' if u < 0.88 else 'window_read'
        inv = {'entry': entry, 'rescore': (r.random() < 0.5) if entry == 'window_score' else True,
               'score': 'real' if r.random() < 0.45 else 'stub'}
        env = {'PHOTO_CALIB': _touched_state(r, p_unset=0.15 if entry == 'window_score' else 0.4)}
        env['PHOTO_RESOLVE'] = _env_state(r, (0.8, 0.1, 0.1))
        env['PHOTO_REDUX'] = _env_state(r, (0.8, 0.1, 0.1))
        inv['env'] = env
        inv['pre'] = r.choice([None, None, None, 'rescore_file', 'rescore_dir', 'remove_rescore'])
    inv['fault'] = _fault_draw(r, tier)
    inv['l2_seed'] = r.randrange(2**31)
    return inv


def _healthy_template(r, w, tier, j):
    """A template_input invocation that is set up to get as far as it can: valid galaxy
    parameter file, all required variables present, no dump file yet."""
    for _ in range(50):
        inv = gen_invocation(r, w, tier, j, force='template_input')
        if inv['par']['variant'] == 'valid' and dict(inv['par']['pairs'])['object'] == 'gal':
            break
    for k in ('BOSS_SPECTRO_REDUX', 'SPECTRO_REDUX', 'SPECTRO_MATCH', 'PHOTO_RESOLVE'):
        inv['env'][k] = 'ok'
    inv['dump'] = 'absent'
    return inv


def generate(seed, tier):
    r = random.Random(seed)
    w = gen_world(r, tier)
    scenario = r.random()
    if scenario < 0.2:
        # durable state carried from one invocation to the next: a run that gets as far as
        # writing its dump file and outputs, then another run over the same workspace with
        # the same, an edited (other reduction version) or another parameter file
        for pl in w['spectro']['plates']:
            for k in ('damage', 'photo_damage', 'z_damage', 'no_coeff'):
                pl.pop(k, None)
            pl['masks'] = 'u8'
        first = _healthy_template(r, w, tier, 0)
        first['fault'] = None if r.random() < 0.7 else first['fault']
        invs = [first]
        for j in range(1, r.choice([2, 2, 3])):
            inv = gen_invocation(r, w, tier, j, force='template_input')
            inv['dump'] = 'keep'
            u = r.random()
            if u < 0.35:
                inv['par'] = copy.deepcopy(first['par'])
            elif u < 0.75:
                inv['par'] = copy.deepcopy(first['par'])
                alt = r.choice([v for v in RUN_VALUES if v != w['spectro']['run2d']])
                which = r.choice([('run2d', 'run1d'), ('run2d',), ('run1d',)])
                inv['par']['pairs'] = [[a, (alt if a in which else b)] for a, b in inv['par']['pairs']]
                inv['par']['variant'] = 'valid+alt_run'
            invs.append(inv)
    else:
        n = r.choice([1, 1, 2, 2, 3, 4])
        invs = [gen_invocation(r, w, tier, j, stratum=seed % 997) for j in range(n)]
    desc = {'property': 'C20', 'seed': seed, 'tier': tier, 'world': w, 'invocations': invs}
    _extras(desc)
    return desc


def _extras(desc):
    """World features added after the adversarial rounds, drawn from a generator of their own so
    that the configurations of earlier rounds keep their meaning seed by seed.
    * a reduction version in the parameter file that cannot be exported (embedded NUL): the
      export of RUN2D succeeds and that of RUN1D fails, or the first one fails already -
      a natural failure *between* the two perturbing mutations;
    * window_flist.fits whose first extension is an empty image (the table comes second):
      readable, but nothing the scoring expects is where it should be."""
    r2 = random.Random((desc['seed'] * 2654435761 + 12) & 0xffffffffffff)
    for inv in desc['invocations']:
        u = r2.random()
        if inv['entry'] == 'template_input' and inv['par']['variant'] == 'valid' and u < 0.06:
            k = 'run1d' if u < 0.04 else 'run2d'
            inv['par']['pairs'] = [[a, (str(b) + '\x00x' if a == k else b)] for a, b in inv['par']['pairs']]
            inv['par']['variant'] = 'nul_in_' + k
    has_window = any(inv['entry'].startswith('window') for inv in desc['invocations'])
    if has_window and r2.random() < 0.25 and not desc['world']['photo'].get('flist_damage'):
        desc['world']['photo']['flist_layout'] = 'image_ext_first'
