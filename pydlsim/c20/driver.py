"""C20: build the world of a run description and execute its history, recording,
sweeping fault points and checking the environment oracle after every invocation.
"""
import gc
import os
import pickle
import random
import shutil
import tempfile
import types
import warnings

import numpy as np

from ..world import inject, survey
from ..world.clock import SimClock, Seams, install_clock
from .config import TOUCHED

# BLAS thread counts are read when the libraries are loaded (the worker starts with them = 1);
# they are NOT part of the per-invocation baseline, so that the world can draw them as knobs.
_BASE_KEEP = ('PATH', 'HOME', 'MPLCONFIGDIR', 'TZ', 'LANG', 'LC_ALL', 'TMPDIR',
              'PYTHONHASHSEED', 'PYTHONPATH', 'VIRTUAL_ENV', 'XDG_CACHE_HOME', 'XDG_CONFIG_HOME')
_PROCESS_BASE = None


def process_base():
    """The part of the worker's own environment every invocation keeps."""
    global _PROCESS_BASE
    if _PROCESS_BASE is None:
        _PROCESS_BASE = {k: os.environ[k] for k in _BASE_KEEP if k in os.environ}
    return dict(_PROCESS_BASE)


# ---------------------------------------------------------------------------
# plotting stub (recording stand-in for matplotlib.pyplot / FontProperties)
class _StubAx(object):
    def __getattr__(self, n):
        return lambda *a, **k: None


class _StubFig(object):
    def savefig(self, fn, *a, **k):
        with open(fn, 'wb') as f:
            f.write(b'stub-png')

    def __getattr__(self, n):
        return lambda *a, **k: None


class StubPlt(object):
    def __init__(self):
        self.figures = 0

    def subplots(self, *a, **k):
        self.figures += 1
        return _StubFig(), _StubAx()

    def close(self, *a, **k):
        return None

    def __getattr__(self, n):
        return lambda *a, **k: None


def _stub_fontproperties(**k):
    return None


def _stub_sdss_score(flist, silent=True, **kwargs):
    return np.zeros(flist[1].header.get('NAXIS2'), dtype='f4')


# ---------------------------------------------------------------------------
class World(object):
    def __init__(self, desc, parent=None):
        self.desc = desc
        self.w = desc['world']
        self.invs = desc['invocations']
        self.root = os.path.realpath(tempfile.mkdtemp(prefix='pydlsim-c20-', dir=parent))
        self.rw = os.path.join(self.root, 'rw')
        self.snap = os.path.join(self.root, 'rw.snap')
        self.seams = Seams()
        self.clock = SimClock(self.w['clock']['start'], self.w['clock']['ticks'])
        self.sim_seconds = 0.0
        self._cwd0 = os.getcwd()
        self.built = False

    # -- construction ------------------------------------------------------
    def build(self):
        from pydl.pydlspec2d import spec1d
        from pydl.photoop import window
        from pydl.goddard import astro
        import pydl.pydlutils.sdss as sdss
        os.makedirs(self.rw)
        with warnings.catch_warnings():
            warnings.simplefilter('ignore')
            self.spectro_redux = survey.build_spectro(self.root, self.w['spectro'])
            self.resolve, self.photo_redux = survey.build_photo(self.root, self.w['photo'])
        for j, inv in enumerate(self.invs):
            if inv['entry'] == 'template_input':
                survey.write_par(os.path.join(self.rw, 'in{0}.par'.format(j)), inv['par'])
        self.ro_listing = (survey.tree_listing(self.spectro_redux) +
                           survey.tree_listing(self.photo_redux))
        # seams
        s = self.seams
        s.set(sdss, 'maskbits', {k: dict(v) for k, v in survey.MASKBITS.items()})
        for m in (spec1d, window, astro):
            install_clock(s, m, self.clock)
        import matplotlib
        matplotlib.use(self.w.get('mpl_backend', 'agg'), force=True)
        if self.w['plots'] == 'stub':
            s.set(spec1d, 'plt', StubPlt())
            s.set(spec1d, 'FontProperties', _stub_fontproperties)
        self._real_sdss_score = getattr(window, 'sdss_score', None)     # absent after a refactor: no stub then
        self._window = window
        self._spec1d = spec1d
        self.built = True

    def close(self):
        self.seams.restore()
        try:
            if self._real_sdss_score is not None:
                self._window.sdss_score = self._real_sdss_score
        except AttributeError:
            pass
        os.chdir(self._cwd0)
        shutil.rmtree(self.root, ignore_errors=True)

    def ro_intact(self):
        return (survey.tree_listing(self.spectro_redux) +
                survey.tree_listing(self.photo_redux)) == self.ro_listing

    # -- durable state -------------------------------------------------------
    def snapshot_rw(self):
        if os.path.exists(self.snap):
            shutil.rmtree(self.snap)
        shutil.copytree(self.rw, self.snap, symlinks=True)

    def restore_rw(self):
        os.chdir(self.root)
        shutil.rmtree(self.rw)
        shutil.copytree(self.snap, self.rw, symlinks=True)

    def pre_actions(self, j):
        """External-actor / crash effects on durable state before invocation j."""
        inv = self.invs[j]
        if inv['entry'] == 'template_input':
            p = os.path.join(self.rw, 'dump.pkl')
            d = inv.get('dump', 'keep')
            if d == 'keep':
                return
            if d == 'absent':
                if os.path.exists(p):
                    os.remove(p)
            elif d == 'empty':
                open(p, 'wb').close()
            elif d == 'garbage':
                with open(p, 'wb') as f:
                    f.write(b'\x80\x04not a pickle at all' * 3)
            elif d == 'wrongshape':
                with open(p, 'wb') as f:
                    pickle.dump({'newflux': [1, 2, 3]}, f)
            elif isinstance(d, dict) and 'truncate' in d:
                if os.path.exists(p) and os.path.getsize(p) > 0:
                    with open(p, 'r+b') as f:
                        f.truncate(int(d['truncate']*os.path.getsize(p)))
                else:
                    open(p, 'wb').close()
        else:
            p = os.path.join(self.resolve, 'window_flist_rescore.fits')
            pre = inv.get('pre')
            if pre in ('rescore_file', 'rescore_dir', 'remove_rescore'):
                if os.path.isdir(p):
                    shutil.rmtree(p)
                elif os.path.exists(p):
                    os.remove(p)
            if pre == 'rescore_file':
                shutil.copyfile(os.path.join(self.resolve, 'window_flist.fits'), p) \
                    if os.path.exists(os.path.join(self.resolve, 'window_flist.fits')) \
                    else open(p, 'wb').close()
            elif pre == 'rescore_dir':
                os.mkdir(p)

    # -- environment ---------------------------------------------------------
    def baseline_env(self, j):
        inv = self.invs[j]
        env = process_base()
        env.update(self.w['bystanders'])
        dirs = {'BOSS_SPECTRO_REDUX': self.spectro_redux, 'SPECTRO_REDUX': self.spectro_redux,
                'SPECTRO_MATCH': os.path.join(self.root, 'match'),
                'PHOTO_RESOLVE': self.resolve, 'PHOTO_REDUX': self.photo_redux}
        for k, state in inv['env'].items():
            if k in dirs:
                if state == 'ok':
                    env[k] = dirs[k]
                elif state == 'nodir':
                    env[k] = os.path.join(self.root, 'no-such-dir', k.lower())
                else:
                    env.pop(k, None)
            else:
                if state is None:
                    env.pop(k, None)
                else:
                    env[k] = state
        # explicit overrides (environment-lookup flips): applied last, raw values, None = unset;
        # the token '$DIR' stands for the directory this world would normally put there
        for k, v in (inv.get('env_extra') or {}).items():
            if v is None:
                env.pop(k, None)
            elif v == '$DIR':
                env[k] = dirs.get(k, os.path.join(self.root, 'some-dir'))
            else:
                env[k] = v
        return env

    def _reset_process(self, j):
        from astropy import log
        inv = self.invs[j]
        os.environ.clear()
        os.environ.update(self.baseline_env(j))
        np.random.seed(self.w['np_seed'])
        self.clock.now = self.w['clock']['start'] + 40000.0*j
        self.clock.nread = 0
        log.disabled = True
        log.setLevel('INFO')
        self._spec1d.findspec_cache = None
        if inv['entry'] != 'template_input' and self._real_sdss_score is not None:
            self._window.sdss_score = (_stub_sdss_score if inv.get('score') == 'stub'
                                       else self._real_sdss_score)
        os.chdir(self.rw)

    def _after_run(self):
        self.sim_seconds += self.clock.covered
        self.clock.covered = 0.0
        os.chdir(self.root)
        if self.w['plots'] != 'stub':
            import matplotlib.pyplot as plt
            plt.close('all')
        gc.collect()

    def callable_for(self, j):
        inv = self.invs[j]
        if inv['entry'] == 'template_input':
            par = os.path.join(self.rw, 'in{0}.par'.format(j))
            dump = os.path.join(self.rw, 'dump.pkl')
            arg = inv.get('dumparg', 'abs')
            if arg == 'rel':
                dump = 'dump.pkl'              # the cwd of every execution is the rw directory
            elif arg == 'path':
                import pathlib
                dump = pathlib.Path(dump)
            elif arg == 'nodir':
                dump = os.path.join(self.rw, 'no-such-subdir', 'dump.pkl')
            flux, verbose = inv['flux'], inv['verbose']
            return lambda: self._spec1d.template_input(par, dump, flux=flux, verbose=verbose)
        if inv['entry'] == 'window_score':
            rescore = inv['rescore']
            return lambda: self._window.window_score(rescore=rescore)
        if inv['entry'] == 'window_read':
            return lambda: self._window.window_read(flist=True, rescore=True)
        raise ValueError(inv['entry'])

    def entry_keys(self, j):
        e = self.invs[j]['entry']
        if e == 'template_input':
            return [inject.code_key(self._spec1d.template_input.__code__)]
        return [inject.code_key(getattr(self._window, e).__code__)]

    # -- one execution of invocation j from the current rw state ---------------
    def execute(self, j, fault=None, keep_events=False, env_extra=None, isolated=False):
        """-> dict(outcome, diff, monitor, oc).  `fault` is an inject.Fault (or a chain) or None.

        isolated=True runs the execution in a forked child: recordings, injected runs and
        environment flips of invocation j all start from exactly the process state the
        history left behind (module-level state of pydl included), and none of them can
        influence another or the history itself.  Only the execution that *advances* the
        history runs here, in the run's own process - which is also what a replay does."""
        if isolated:
            return self._execute_forked(j, fault, keep_events, env_extra)
        saved_extra = self.invs[j].get('env_extra')
        if env_extra is not None:
            merged = dict(saved_extra or {})
            merged.update(env_extra)
            self.invs[j]['env_extra'] = merged
        try:
            self._reset_process(j)
        finally:
            if env_extra is not None:
                if saved_extra is None:
                    self.invs[j].pop('env_extra', None)
                else:
                    self.invs[j]['env_extra'] = saved_extra
        fn = self.callable_for(j)
        with warnings.catch_warnings():
            warnings.simplefilter('ignore')
            m, outcome, before, after = inject.run_monitored(
                fn, TOUCHED[self.invs[j]['entry']], fault=fault, keep_events=keep_events)
        self._after_run()
        diff = inject.env_diff(before, after)
        res = {'outcome': outcome, 'diff': diff, 'monitor': m}
        res['oc'] = outcome_class(self, res)
        return res

    def _execute_forked(self, j, fault, keep_events, env_extra, timeout=600.0):
        import pickle as _pickle
        import select
        import time as _wall
        r, w = os.pipe()
        pid = os.fork()
        if pid == 0:
            code = 0
            try:
                os.close(r)
                res = self.execute(j, fault=fault, keep_events=keep_events, env_extra=env_extra)
                m = res['monitor']
                payload = {'oc': res['oc'], 'diff': res['diff'], 'sim': self.sim_seconds,
                           'mon': {'fired': m.fired, 'fired_all': m.fired_all, 'diverged': m.diverged,
                                   'not_delivered': m.not_delivered, 'n': m.n,
                                   'touched': m.touched, 'tv0': m.tv0,
                                   'events': m.events if keep_events else [],
                                   'mutations': m.mutations, 'other_mutations': m.other_mutations,
                                   'reads': m.reads}}
                with os.fdopen(w, 'wb') as f:
                    _pickle.dump(payload, f, protocol=_pickle.HIGHEST_PROTOCOL)
            except BaseException:
                code = 3
                try:
                    import traceback
                    with os.fdopen(w, 'wb') as f:
                        _pickle.dump({'error': traceback.format_exc()}, f)
                except Exception:
                    pass
            finally:
                os._exit(code)
        os.close(w)
        chunks = []
        t_end = _wall.monotonic() + timeout
        timed_out = False
        while True:
            left = t_end - _wall.monotonic()
            if left <= 0:
                timed_out = True
                break
            ready, _, _ = select.select([r], [], [], min(left, 5.0))
            if ready:
                b = os.read(r, 1 << 20)
                if not b:
                    break
                chunks.append(b)
        os.close(r)
        if timed_out:
            try:
                os.kill(pid, 9)
            except OSError:
                pass
        os.waitpid(pid, 0)
        if timed_out:
            raise RuntimeError('harness: an isolated execution did not finish within %.0fs' % timeout)
        payload = _pickle.loads(b''.join(chunks))
        if 'error' in payload:
            raise RuntimeError('harness: isolated execution failed:\n' + payload['error'])
        self.sim_seconds = payload['sim']
        mon = types.SimpleNamespace(**payload['mon'])
        return {'outcome': None, 'diff': payload['diff'], 'monitor': mon, 'oc': payload['oc']}

    def scrub(self, s):
        return str(s).replace(self.root, '$ROOT')


def outcome_class(world, res):
    """Deterministic, path-free summary of how an execution ended."""
    if res.get('oc') is not None:
        return res['oc']
    kind, exc = res['outcome']
    m = res['monitor']
    fired = m.fired is not None
    if kind == 'returned':
        return ['returned', 'fault-absorbed' if fired else 'clean']
    org = inject.origin_of(exc)
    if fired and 'injected' in str(exc):
        return ['raised-injected'] + org
    return ['raised-natural' if not fired else 'raised-after-absorbed-fault'] + org


def identity(ev):
    return [ev['caller'], ev['line'], ev['callee']]


def occurrence(events, k):
    ident = identity(events[k])
    return sum(1 for e in events[:k + 1] if identity(e) == ident)


def window_start(m):
    return min((mu['at'] for mu in m.mutations), default=None)


def in_windows(i, wins, win):
    """Is event i inside a perturbed stretch of the touched variables?"""
    if wins:
        return any(a <= i < b for a, b in wins)
    return win is not None and i >= win


def plan_faults(events, r, l1, win, inv, tier, entry, agg=False, blocked=(), owin=(), still_open=frozenset(),
                wins=None):
    """Which (k, exception name) pairs to inject for one recorded invocation."""
    adm = [e for e in events[:r] if e['adm'] and not any(lo <= e['i'] < hi for lo, hi in blocked)]
    l1ev = [e for e in adm if e['ckey'] in l1]
    l2ev = [e for e in adm if e['ckey'] not in l1]
    rr = random.Random(inv['l2_seed'])
    plan = []
    fam_a, fam_b = inject.OSERROR_FAMILY, inject.OTHER_FAMILY
    nmpl = 0
    nret = 0
    for e in l1ev:
        if agg and tier == 'quick' and e['callee'].startswith('matplotlib.'):
            # real Agg drawing costs ~0.5 s per execution: in the quick tier the
            # first-level matplotlib call sites are sampled 1 in 6, one family each
            nmpl += 1
            if nmpl % 6 != 1:
                continue
            plan.append((e['i'], rr.choice(fam_a if nmpl % 12 == 1 else fam_b), 'L1', 'entry'))
            continue
        plan.append((e['i'], rr.choice(fam_a), 'L1', 'entry'))
        plan.append((e['i'], rr.choice(fam_b), 'L1', 'entry'))
        if e['i'] not in still_open:
            # the collaborator completes its effect, then the failure surfaces on return
            nret += 1
            plan.append((e['i'], rr.choice(fam_a if nret % 2 else fam_b), 'L1', 'return'))
    if entry != 'template_input':
        # window_*: cheap, sweep every deeper site too
        for n, e in enumerate(l2ev):
            plan.append((e['i'], rr.choice(fam_a if n % 2 == 0 else fam_b), 'L2', 'entry'))
            if tier == 'thorough':
                plan.append((e['i'], rr.choice(fam_b if n % 2 == 0 else fam_a), 'L2', 'entry'))
            if (n % 2 == 1 or tier == 'thorough') and e['i'] not in still_open:
                plan.append((e['i'], rr.choice(fam_a if n % 4 == 1 else fam_b), 'L2', 'return'))
    else:
        nl2 = 16 if tier == 'quick' else 120
        # sites inside the window of any *other* environment variable the code mutates come
        # first: every distinct site there once (a stage that restores it on success only)
        prio = {}
        for e in l2ev:
            if any(lo <= e['i'] < hi for lo, hi, _ in owin):
                prio.setdefault((e['caller'], e['line'], e['callee']), e)
        for n, s_ in enumerate(sorted(prio)[:40 if tier == 'quick' else 400]):
            plan.append((prio[s_]['i'], rr.choice(fam_a if n % 2 == 0 else fam_b), 'L2', 'entry'))
        # stratify by call site (caller, line, callee): every distinct site once
        # before any site twice; in-window sites first 4:1
        inwin = [e for e in l2ev if in_windows(e['i'], wins, win)]
        outwin = [e for e in l2ev if not in_windows(e['i'], wins, win)]
        chosen = []
        for pool, share in ((inwin, 0.8), (outwin, 0.2)):
            want = int(round(nl2*share))
            by_site = {}
            for e in pool:
                by_site.setdefault((e['caller'], e['line'], e['callee']), []).append(e)
            sites = sorted(by_site)
            rr.shuffle(sites)
            picked = []
            rnd = 0
            while len(picked) < want and sites:
                for s in sites:
                    lst = by_site[s]
                    if rnd == 0 or len(lst) > 1:
                        picked.append(rr.choice(lst))
                    if len(picked) >= want:
                        break
                rnd += 1
                if rnd > 3:
                    break
            chosen += picked
        for n, e in enumerate(chosen):
            when = 'return' if (n % 3 == 2 and e['i'] not in still_open) else 'entry'
            plan.append((e['i'], rr.choice(fam_a if n % 2 == 0 else fam_b), 'L2', when))
    if tier == 'quick':
        # bound the cost of one invocation in the quick tier (a successful run with real Agg
        # drawing has ~100 first-level sites at ~0.7 s per execution): keep every entry-fault of
        # the first level, then as many of the others as fit; the cap is a count, never a clock
        cap = 30 if agg else 150
        if len(plan) > cap:
            first = [p_ for p_ in plan if p_[2] == 'L1' and p_[3] == 'entry']
            rest = [p_ for p_ in plan if not (p_[2] == 'L1' and p_[3] == 'entry')]
            step = max(1, len(rest)//max(1, cap - len(first)))
            plan = (first + rest[::step])[:max(cap, len(first))]
            if agg and len(plan) > cap:
                plan = plan[::max(2, len(plan)//cap)]
    return plan, len(l1ev), len(l2ev)


def resolve_selector(sel, events, r, l1, win, blocked=()):
    """Turn a pre-drawn fault selector into (k, exc) using the recording, or None."""
    if sel is None:
        return None
    adm = [e for e in events[:r] if e['adm'] and not any(lo <= e['i'] < hi for lo, hi in blocked)]
    pool = [e for e in adm if (e['ckey'] in l1) == (sel['scope'] == 'L1')]
    if sel.get('window') and win is not None:
        pw = [e for e in pool if e['i'] >= win]
        pool = pw or pool
    if not pool:
        pool = adm
    if not pool:
        return None
    e = pool[min(len(pool) - 1, int(sel['u']*len(pool)))]
    return e['i'], sel['exc'], sel.get('when', 'entry')


def fault_from_spec(spec):
    """Replay-file fault -> inject.Fault (identity + occurrence addressing); a list of
    specs is a chain (each later fault is counted from the delivery of the previous one)."""
    if spec is None:
        return None
    if isinstance(spec, list):
        return [fault_from_spec(x) for x in spec]
    return inject.Fault(spec.get('k'), spec['exc'], tuple(spec['identity']), occ=spec['occ'],
                        when=spec.get('when', 'entry'))
