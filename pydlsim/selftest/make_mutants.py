"""Regenerates selftest/mutants/*.patch and selftest/variants/*.patch from /repo's
current tree by exact string replacement (so each patch is known to apply).
Run by hand after /repo changes:  /venv/bin/python -m pydlsim.selftest.make_mutants
"""
import difflib
import os
import sys

REPO = os.environ.get('PYDLSIM_REPO', '/repo')
HERE = os.path.dirname(os.path.abspath(__file__))
Y = 'pydl/pydlutils/yanny.py'
W = 'pydl/photoop/window.py'
S = 'pydl/pydlspec2d/spec1d.py'

FIN_W = """    finally:
        #
        # Restore the PHOTO_CALIB variable, even if something above failed.
        #
        os.environ['PHOTO_CALIB'] = calib_dir_save
"""
FIN_S = """    finally:
        for r in orig:
            if orig[r] is None:
                if r in os.environ:
                    del os.environ[r]
            else:
                os.environ[r] = orig[r]
"""
CALL_S = "        _template_input(inputfile, dumpfile, flux=flux, verbose=verbose)\n"
SNAP_S = "    orig = dict([(r, os.environ.get(r)) for r in ('RUN2D', 'RUN1D')])\n"

# name -> (property, expectation, file, [(old, new), ...])
M = {}


def mut(name, prop, file, *pairs):
    M[name] = (prop, 'violation', file, pairs)


def var(name, prop, file, *pairs):
    M[name] = (prop, 'pass', file, pairs)


# ---- C03 mutants ---------------------------------------------------------------
mut('c03_append_opens_w', 'C03', Y, ("                with open(self.filename, 'a') as f:", "                with open(self.filename, 'w') as f:"))
mut('c03_append_contents_not_extended', 'C03', Y, ("                self._contents += contents\n", ""))
mut('c03_append_skips_reparse', 'C03', Y, ("                self._contents += contents\n                self._parse()\n", "                self._contents += contents\n"))
mut('c03_write_keeps_old_filename', 'C03', Y, ("        self._contents = contents\n        self.filename = newfile\n", "        self._contents = contents\n"))
mut('c03_write_no_existence_check', 'C03', Y, ("        if os.access(newfile, os.F_OK):\n", "        if False and os.access(newfile, os.F_OK):\n"))
mut('c03_append_no_access_check', 'C03', Y, ("            if os.access(self.filename, os.W_OK):\n", "            if True:\n"))
mut('c03_append_upper_case_key_only', 'C03', Y, ("            if sym.lower() in datatable:\n                datasym = sym.lower()\n            else:\n                datasym = sym\n", "            datasym = sym\n"))
mut('c03_append_scalar_not_protected', 'C03', Y, ("                            datum = self.protect(datatable[datasym][col][k])\n", "                            datum = str(datatable[datasym][col][k])\n"))
mut('c03_append_array_not_protected', 'C03', Y, ("                            datum = ('{' + ' '.join([self.protect(x)\n                                     for x in datatable[datasym][col][k]]) +\n                                     '}')", "                            datum = ('{' + ' '.join([str(x.decode() if isinstance(x, bytes) else x)\n                                     for x in datatable[datasym][col][k]]) +\n                                     '}')"))
mut('c03_append_empty_raises', 'C03', Y, ('            warnings.warn("Nothing to be appended!", PydlutilsUserWarning)', '            raise PydlutilsException("Nothing to be appended!")'))
mut('c03_append_empty_silent', 'C03', Y, ('            warnings.warn("Nothing to be appended!", PydlutilsUserWarning)', '            pass'))
mut('c03_append_reads_row0', 'C03', Y, ("                            datum = self.protect(datatable[datasym][col][k])\n", "                            datum = self.protect(datatable[datasym][col][0])\n"))
mut('c03_write_reparses_old_contents', 'C03', Y, ("        self._contents = contents\n        self.filename = newfile\n", "        self.filename = newfile\n"))
mut('c03_append_stamp_not_comment', 'C03', Y, ('            contents = ("# Appended by yanny.py at {0}.\\n".format(timestamp) +', '            contents = ("Appended by yanny.py at {0}.\\n".format(timestamp) +'))
mut('c03_append_dedup_same_second', 'C03', Y,
    ("        if len(contents) > 0:\n            contents = (\"# Appended by",
     "        if len(contents) > 0 and getattr(self, '_last_stamp', None) == timestamp:\n            return\n        self._last_stamp = timestamp\n        if len(contents) > 0:\n            contents = (\"# Appended by"))
mut('c03_reparse_keeps_old_rows', 'C03', Y,
    ("            self[name.upper()] = dict()\n            self._symbols[name.upper()] = list()\n",
     "            if not (self.raw and name.upper() in self):\n                self[name.upper()] = dict()\n            self._symbols[name.upper()] = list()\n"),
    ("                self[name.upper()][column] = list()\n",
     "                if not (self.raw and column in self[name.upper()]):\n                    self[name.upper()][column] = list()\n"))
mut('c03_append_pairs_dropped_in_raw_mode', 'C03', Y,
    ("            contents += \"{0} {1}\\n\".format(key, datatable[key])\n",
     "            if not self.raw:\n                contents += \"{0} {1}\\n\".format(key, datatable[key])\n"))

# ---- C03 no-alarm variants --------------------------------------------------------
var('ok_c03_now_utc', 'C03', Y,
    ("            timestamp = datetime.datetime.utcnow().strftime('%Y-%m-%d %H:%M:%S UTC')", "            timestamp = datetime.datetime.now(datetime.timezone.utc).strftime('%Y-%m-%d %H:%M:%S UTC')"),
    ("        timestamp = datetime.datetime.utcnow().strftime('%Y-%m-%d %H:%M:%S UTC')\n        contents = ''", "        timestamp = datetime.datetime.now(datetime.timezone.utc).strftime('%Y-%m-%d %H:%M:%S UTC')\n        contents = ''"))
var('ok_c03_path_exists', 'C03', Y,
    ("        if os.access(newfile, os.F_OK):\n", "        if os.path.exists(newfile):\n"),
    ("            if os.access(self.filename, os.W_OK):\n", "            if os.path.isfile(self.filename):\n"))
var('ok_c03_open_x', 'C03', Y,
    ("        with open(newfile, 'w') as f:\n            f.write(contents)\n", "        with open(newfile, 'x') as f:\n            f.write(contents)\n"))
var('ok_c03_fileexistserror', 'C03', Y,
    ("            raise PydlutilsException(\n                  \"{0} exists, aborting write!\".format(newfile))", "            raise FileExistsError(\n                  \"{0} exists, aborting write!\".format(newfile))"))
var('ok_c03_no_timestamp', 'C03', Y,
    ('            contents = ("# Appended by yanny.py at {0}.\\n".format(timestamp) +', '            contents = ("# Appended by yanny.py.\\n" +'))
var('ok_c03_single_write_call', 'C03', Y,
    ("                with open(self.filename, 'a') as f:\n                    f.write(contents)\n", "                with open(self.filename, 'a') as f:\n                    for _line in contents.splitlines(True):\n                        f.write(_line)\n"))

var('ok_c03_plain_userwarning', 'C03', Y, ('            warnings.warn("Nothing to be appended!", PydlutilsUserWarning)', '            warnings.warn("Nothing to be appended!", UserWarning)'))
var('ok_c03_unicode_string_columns', 'C03', Y, ('                d = "S{0:d}".format(self.char_length(structure, c))', '                d = "U{0:d}".format(self.char_length(structure, c))'))
var('ok_c03_write_via_tempfile_rename', 'C03', Y,
    ("        with open(newfile, 'w') as f:\n            f.write(contents)\n", "        import tempfile\n        _fd, _tmp = tempfile.mkstemp(dir=os.path.dirname(newfile) or '.', prefix='.yanny-')\n        with os.fdopen(_fd, 'w') as f:\n            f.write(contents)\n        os.rename(_tmp, newfile)\n"))
# the same idea with a FIXED temporary name clobbers a bystander called <target>.tmp: not benign
mut('c03_write_via_fixed_tmp_name', 'C03', Y,
    ("        with open(newfile, 'w') as f:\n            f.write(contents)\n", "        with open(newfile + '.tmp', 'w') as f:\n            f.write(contents)\n        os.rename(newfile + '.tmp', newfile)\n"))
var('ok_c03_int64_columns_widened', 'C03', Y, ("        dtmap = {'short': 'i2', 'int': 'i4', 'long': 'i8', 'float': 'f',\n                 'double': 'd'}\n        for c in self.columns(structure):", "        dtmap = {'short': 'i4', 'int': 'i8', 'long': 'i8', 'float': 'f',\n                 'double': 'd'}\n        for c in self.columns(structure):"))
# ---- C20 mutants ---------------------------------------------------------------------
mut('c20_w_restore_on_success_only', 'C20', W, (FIN_W, "    finally:\n        pass\n    os.environ['PHOTO_CALIB'] = calib_dir_save\n"))
mut('c20_w_restore_if_rescore', 'C20', W, (FIN_W, FIN_W.replace("        os.environ['PHOTO_CALIB'] = calib_dir_save", "        if rescore:\n            os.environ['PHOTO_CALIB'] = calib_dir_save")))
mut('c20_w_except_photoop_only', 'C20', W, (FIN_W, "    except PhotoopException:\n        os.environ['PHOTO_CALIB'] = calib_dir_save\n        raise\n    else:\n        os.environ['PHOTO_CALIB'] = calib_dir_save\n"))
mut('c20_w_extra_variable_left', 'C20', W, (FIN_W, FIN_W + "        os.environ['PYDL_DEBUG'] = '1'\n"))
mut('c20_w_restores_wrong_value', 'C20', W, (FIN_W, FIN_W.replace("= calib_dir_save", "= resolve_dir")))
mut('c20_w_restore_unless_writeto_fails', 'C20', W,
    ("            flist.writeto(os.path.join(resolve_dir, 'window_flist_rescore.fits'))\n",
     "            try:\n                flist.writeto(os.path.join(resolve_dir, 'window_flist_rescore.fits'))\n            except OSError:\n                calib_dir_save = ''\n                raise\n"))
mut('c20_s_restores_run2d_only', 'C20', S, (FIN_S, FIN_S.replace("for r in orig:", "for r in ('RUN2D',):")))
mut('c20_s_run1d_from_run2d_snapshot', 'C20', S, (FIN_S, FIN_S.replace("os.environ[r] = orig[r]", "os.environ[r] = orig['RUN2D'] or orig[r]")))
mut('c20_s_snapshot_after_metadata', 'C20', S, (SNAP_S, "    orig = dict()\n"),
    ("    slist, metadata = template_metadata(inputfile)\n    #\n    # Name the output files.",
     "    slist, metadata = template_metadata(inputfile)\n    _orig.update(dict([(r.upper(), metadata['orig_'+r]) for r in ('run2d', 'run1d')]))\n    #\n    # Name the output files."),
    (CALL_S, "        _template_input(inputfile, dumpfile, flux=flux, verbose=verbose, _orig=orig)\n"),
    ("def _template_input(inputfile, dumpfile, flux=False, verbose=False):", "def _template_input(inputfile, dumpfile, flux=False, verbose=False, _orig=None):"))
mut('c20_s_del_instead_of_restore', 'C20', S, (FIN_S, FIN_S.replace("            else:\n                os.environ[r] = orig[r]", "            else:\n                del os.environ[r]")))
mut('c20_s_restore_on_success_only', 'C20', S, (FIN_S, "    finally:\n        pass\n    for r in orig:\n        if orig[r] is None:\n            if r in os.environ:\n                del os.environ[r]\n        else:\n            os.environ[r] = orig[r]\n"))
mut('c20_s_skip_when_dump_exists', 'C20', S, (FIN_S, FIN_S.replace("        for r in orig:", "        for r in ([] if os.path.exists(dumpfile) else orig):")))
mut('c20_s_except_oserror_only', 'C20', S, (FIN_S, "    except OSError:\n        for r in orig:\n            if orig[r] is None:\n                os.environ.pop(r, None)\n            else:\n                os.environ[r] = orig[r]\n        raise\n    else:\n        for r in orig:\n            if orig[r] is None:\n                os.environ.pop(r, None)\n            else:\n                os.environ[r] = orig[r]\n"))
mut('c20_s_unset_not_removed', 'C20', S, (FIN_S, FIN_S.replace("            if orig[r] is None:\n                if r in os.environ:\n                    del os.environ[r]\n", "            if orig[r] is None:\n                pass\n")))
mut('c20_s_restore_skipped_for_star', 'C20', S, (FIN_S, FIN_S.replace("        for r in orig:", "        for r in (orig if 'Star' not in ''.join(os.listdir('.')) else []):")))
mut('c20_s_empty_value_treated_as_unset', 'C20', S, (FIN_S, FIN_S.replace("            if orig[r] is None:", "            if not orig[r]:")))

# a stage deep in the call tree perturbs ANOTHER variable and restores it on success only
mut('c20_s_hmf_thread_variable_success_only', 'C20', S,
    ("        a, g = self.iterate()\n        fluxdict['acoeff'] = a\n",
     "        _threads = os.environ.get('PYDL_HMF_THREADS')\n        os.environ['PYDL_HMF_THREADS'] = '1'\n        a, g = self.iterate()\n        if _threads is None:\n            del os.environ['PYDL_HMF_THREADS']\n        else:\n            os.environ['PYDL_HMF_THREADS'] = _threads\n        fluxdict['acoeff'] = a\n"))
mut('c20_w_retry_branch_sets_flag', 'C20', W,
    ("            try:\n                fpfield = fits.open(thisfile)\n            except IOError:\n                warn(\"Bad fpFieldStat",
     "            os.environ['PYDL_FPFIELDSTAT_RETRIED'] = '1'\n            try:\n                fpfield = fits.open(thisfile)\n            except IOError:\n                warn(\"Bad fpFieldStat"))
var('ok_c20_s_hmf_thread_variable_finally', 'C20', S,
    ("        a, g = self.iterate()\n        fluxdict['acoeff'] = a\n",
     "        _threads = os.environ.get('PYDL_HMF_THREADS')\n        os.environ['PYDL_HMF_THREADS'] = '1'\n        try:\n            a, g = self.iterate()\n        finally:\n            if _threads is None:\n                del os.environ['PYDL_HMF_THREADS']\n            else:\n                os.environ['PYDL_HMF_THREADS'] = _threads\n        fluxdict['acoeff'] = a\n"))
# restore only reachable through a failure handler whose own clean-up can fail (needs two faults)
mut('c20_w_restore_in_handler_after_cleanup', 'C20', W, (FIN_W, "    except Exception:\n        log.debug('window_score failed, cleaning up')\n        _ = sorted(os.listdir(os.getcwd()))\n        os.environ['PHOTO_CALIB'] = calib_dir_save\n        raise\n    else:\n        os.environ['PHOTO_CALIB'] = calib_dir_save\n"),
    ("    del os.environ['PHOTO_CALIB']\n    try:\n", "    del os.environ['PHOTO_CALIB']\n    resolve_dir = '.'\n    try:\n"))
# ---- C20 no-alarm variants ---------------------------------------------------------------
var('ok_c20_w_helper_update', 'C20', W, (FIN_W, "    finally:\n        _restore_env('PHOTO_CALIB', calib_dir_save)\n"),
    ("def window_score(rescore=False):", "def _restore_env(name, value):\n    log.debug('restoring %s', name)\n    os.environ.update({name: value})\n\n\ndef window_score(rescore=False):"))
var('ok_c20_s_context_manager', 'C20', S,
    (SNAP_S + "    try:\n" + CALL_S + FIN_S, "    with _preserve_env('RUN2D', 'RUN1D'):\n        _template_input(inputfile, dumpfile, flux=flux, verbose=verbose)\n"),
    ("def template_input(inputfile, dumpfile, flux=False, verbose=False):",
     "import contextlib as _contextlib\n\n\n@_contextlib.contextmanager\ndef _preserve_env(*names):\n    saved = dict((n, os.environ.get(n)) for n in names)\n    try:\n        yield\n    finally:\n        for n, v in saved.items():\n            if v is None:\n                os.environ.pop(n, None)\n            else:\n                os.environ[n] = v\n\n\ndef template_input(inputfile, dumpfile, flux=False, verbose=False):"))
var('ok_c20_s_pop_update', 'C20', S, (FIN_S, "    finally:\n        for r in orig:\n            os.environ.pop(r, None)\n        os.environ.update(dict((r, v) for r, v in orig.items() if v is not None))\n"))
var('ok_c20_s_class_context_manager', 'C20', S,
    (SNAP_S + "    try:\n" + CALL_S + FIN_S, "    with _EnvGuard(('RUN2D', 'RUN1D')):\n        _template_input(inputfile, dumpfile, flux=flux, verbose=verbose)\n"),
    ("def template_input(inputfile, dumpfile, flux=False, verbose=False):",
     "class _EnvGuard(object):\n    def __init__(self, names):\n        self.names = names\n\n    def __enter__(self):\n        self.saved = dict((n, os.environ.get(n)) for n in self.names)\n        return self\n\n    def __exit__(self, *exc):\n        self._put_back()\n        return False\n\n    def _put_back(self):\n        for n, v in self.saved.items():\n            log.debug('restoring %s', n)\n            if v is None:\n                os.environ.pop(n, None)\n            else:\n                os.environ[n] = v\n\n\ndef template_input(inputfile, dumpfile, flux=False, verbose=False):"))
var('ok_c20_w_restore_in_except_and_else', 'C20', W, (FIN_W, "    except BaseException:\n        os.environ['PHOTO_CALIB'] = calib_dir_save\n        raise\n    else:\n        os.environ['PHOTO_CALIB'] = calib_dir_save\n"))
var('ok_c20_s_metadata_restores_itself', 'C20', S,
    ("    if metadata['method'].lower() == 'hmf':\n        required_hmf_metadata",
     "    if metadata['method'].lower() == 'hmf' and 'nonnegative' not in par:\n        for r in ('run2d', 'run1d'):\n            if metadata['orig_'+r] is None:\n                del os.environ[r.upper()]\n            else:\n                os.environ[r.upper()] = metadata['orig_'+r]\n    if metadata['method'].lower() == 'hmf':\n        required_hmf_metadata"))

var('ok_c20_s_mock_patch_dict', 'C20', S,
    (SNAP_S + "    try:\n" + CALL_S + FIN_S, "    from unittest import mock\n    with mock.patch.dict(os.environ):\n        _template_input(inputfile, dumpfile, flux=flux, verbose=verbose)\n"))
var('ok_c20_w_copy_and_replace', 'C20', W, (FIN_W, "    finally:\n        os.environ.clear()\n        os.environ.update(_saved_env)\n"),
    ("    del os.environ['PHOTO_CALIB']\n    try:\n", "    _saved_env = dict(os.environ)\n    del os.environ['PHOTO_CALIB']\n    try:\n"))

def main():
    out_m = os.path.join(HERE, 'mutants')
    out_v = os.path.join(HERE, 'variants')
    for d in (out_m, out_v):
        os.makedirs(d, exist_ok=True)
        for f in os.listdir(d):
            if f.endswith('.patch'):
                with open(os.path.join(d, f)) as fh:
                    head = fh.readline()
                if 'source=' not in head:       # patches delivered by sub-agents are kept
                    os.remove(os.path.join(d, f))
    bad = 0
    for name, (prop, expect, file, pairs) in sorted(M.items()):
        src = open(os.path.join(REPO, file)).read()
        new = src
        for old, rep in pairs:
            if new.count(old) < 1:
                print('DOES NOT APPLY:', name, repr(old[:60]))
                bad += 1
                break
            new = new.replace(old, rep, 1)
        else:
            try:
                compile(new, file, 'exec')
            except SyntaxError as e:
                print('SYNTAX ERROR in', name, e)
                bad += 1
                continue
            diff = ''.join(difflib.unified_diff(src.splitlines(True), new.splitlines(True),
                                                'a/' + file, 'b/' + file))
            d = out_m if expect == 'violation' else out_v
            with open(os.path.join(d, name + '.patch'), 'w') as f:
                f.write('# property=%s expect=%s\n' % (prop, expect))
                f.write(diff)
    print('%d patches written, %d problems' % (len(M) - bad, bad))
    return 1 if bad else 0


if __name__ == '__main__':
    sys.exit(main())
