"""Determinism self-test: every run index is executed several times - in different
worker processes, at different worker counts, under different PYTHONHASHSEED values -
and all digests must agree.  Exit 0 = deterministic, 2 = breach."""
import argparse
import importlib
import os
import shutil

from .. import runner


def main(argv):
    ap = argparse.ArgumentParser()
    ap.add_argument('--prop', default='C20')
    ap.add_argument('--runs', type=int, default=64)
    ap.add_argument('--tier', default='quick')
    ap.add_argument('--base', type=int, default=int(os.environ.get('VERIF_SEED', '0') or 0))
    a = ap.parse_args(argv)
    scratch = runner.make_scratch()
    try:
        variants = [('A-w16-h0', 16, '0'), ('B-w16-h0', 16, '0'), ('C-w5-h12345', 5, '12345'),
                    ('D-w16-h777', 16, '777')]
        env0 = runner.worker_env(scratch)
        runner.warm(scratch, env0)
        digests = {}
        for tag, workers, hs in variants:
            env = runner.worker_env(scratch, hashseed=hs)
            procs = runner.launch(a.prop, a.tier, a.base, a.runs, workers, 0.0, 3600.0, scratch, env,
                                  tag=tag + '-')
            results, errors, _ = runner.collect(procs, 3600.0)
            if errors:
                for e in errors[:5]:
                    print('HARNESS-ERROR:', e)
                return 2
            digests[tag] = {r['i']: r['digest'] for r in results}
            print('%s: %d runs' % (tag, len(results)))
        ref = digests[variants[0][0]]
        bad = 0
        for tag, _, _ in variants[1:]:
            for i, d in sorted(ref.items()):
                if digests[tag].get(i) != d:
                    bad += 1
                    print('DIVERGENCE: run %d: %s=%s %s=%s' % (i, variants[0][0], d, tag, digests[tag].get(i)))
        print('determinism: %d runs x %d executions, %d divergences' % (len(ref), len(variants), bad))
        return 0 if bad == 0 and len(ref) == a.runs else 2
    finally:
        shutil.rmtree(scratch, ignore_errors=True)
