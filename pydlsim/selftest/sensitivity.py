"""Sensitivity / no-alarm self-test.

Each patch under selftest/mutants (expected: VIOLATION) or selftest/variants
(expected: pass) is applied to a scratch copy of /repo's *working tree* made
outside /repo and /verif, the registered check is run against the copy
(PYDLSIM_PYDL_PATH puts it ahead of the editable install), and the copy is
removed.  Evidence and replay files of these runs go to the scratch directory.
"""
import argparse
import glob
import os
import shutil
import subprocess
import sys
import tempfile
import time

HERE = os.path.dirname(os.path.abspath(__file__))
VERIF = os.path.dirname(os.path.dirname(HERE))
REPO = os.environ.get('PYDLSIM_REPO', '/repo')


def make_copy(dst):
    os.makedirs(dst)
    # working tree, not HEAD: checks must follow what is on disk
    subprocess.run(['rsync', '-a', '--exclude', '__pycache__', '--exclude', '*.pyc',
                    os.path.join(REPO, 'pydl'), dst], check=True)


def run_one(kind, patch, runs, tier_args):
    with open(patch) as f:
        head = f.readline()
    prop = head.split('property=')[1].split()[0]
    name = os.path.basename(patch)[:-6]
    tmp = tempfile.mkdtemp(prefix='pydlsim-mut-')
    t0 = time.monotonic()
    try:
        copy = os.path.join(tmp, 'copy')
        make_copy(copy)
        pr = subprocess.run(['patch', '-p1', '-s', '-d', copy, '-i', patch], stdout=subprocess.PIPE,
                            stderr=subprocess.STDOUT, text=True)
        if pr.returncode != 0:
            return name, prop, 'patch-does-not-apply', pr.stdout[-300:], 0.0
        env = dict(os.environ)
        env['PYDLSIM_PYDL_PATH'] = copy
        env['PYDLSIM_REPLAY_DIR'] = os.path.join(tmp, 'replays')
        env['PYDLSIM_EVIDENCE_DIR'] = os.path.join(tmp, 'evidence')
        cmd = [os.path.join(VERIF, 'check'), prop] + tier_args
        if runs.get(prop):
            cmd += ['--runs', str(runs[prop])]
        pr = subprocess.run(cmd, env=env, stdout=subprocess.PIPE, stderr=subprocess.STDOUT, text=True,
                            timeout=3600)
        out = pr.stdout
        viol = [l for l in out.splitlines() if l.startswith('VIOLATION ')]
        detail = ''
        for l in out.splitlines():
            if l.startswith('violation:') or l.startswith('HARNESS-ERROR'):
                detail = l[:260]
                break
        if pr.returncode == 1 and viol:
            verdict = 'violation'
        elif pr.returncode == 0 and not viol:
            verdict = 'pass'
        else:
            verdict = 'harness-error(%d)' % pr.returncode
            detail = detail or out[-400:]
        return name, prop, verdict, detail, time.monotonic() - t0
    finally:
        shutil.rmtree(tmp, ignore_errors=True)


def main(kind, argv):
    ap = argparse.ArgumentParser()
    ap.add_argument('names', nargs='*')
    ap.add_argument('--prop')
    ap.add_argument('--runs-c03', type=int, default=3200)
    ap.add_argument('--runs-c20', type=int, default=48)
    ap.add_argument('--full', action='store_true', help='use the registered quick budget')
    a = ap.parse_args(argv)
    d = os.path.join(HERE, 'mutants' if kind == 'sensitivity' else 'variants')
    want = 'violation' if kind == 'sensitivity' else 'pass'
    patches = sorted(glob.glob(os.path.join(d, '*.patch')))
    if a.names:
        patches = [p for p in patches if any(n in os.path.basename(p) for n in a.names)]
    if a.prop:
        patches = [p for p in patches if os.path.basename(p).replace('ok_', '').startswith(a.prop.lower())]
    runs = {} if a.full else {'C03': a.runs_c03, 'C20': a.runs_c20}
    bad = 0
    for p in patches:
        name, prop, verdict, detail, wall = run_one(kind, p, runs, [])
        ok = verdict == want
        bad += 0 if ok else 1
        print('%-4s %-44s %s expected=%s got=%s %.0fs %s' % ('ok' if ok else 'FAIL', name, prop, want,
                                                               verdict, wall, detail if not ok or kind == 'sensitivity' else ''))
        sys.stdout.flush()
    print('%s: %d patches, %d not as expected' % (kind, len(patches), bad))
    return 0 if bad == 0 else 2
