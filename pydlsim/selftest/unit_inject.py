"""Unit test of the fault injector and of the admissibility rule (DESIGN.md 5.4) on
miniature implementations of "perturb the environment, run stages, restore".

Correct variants (any restore style, at any nesting depth, even non-atomic ones,
even when the perturbation never happened) must never be flagged; leaky ones
must be flagged for every in-window fault.   ./check selftest unit
"""
import importlib
import os
import shutil
import sys
import tempfile
import textwrap

SRC = '''
import os
import contextlib


def stage(n):
    if n == 3 and os.environ.get('UNIT_LATE'):
        raise ValueError('natural failure inside the window')
    return n + 1


def cleanup():
    return 0


def fail_early():
    raise ValueError('natural failure before the perturbation')


def _restore(saved):
    note('restoring')
    for k, v in saved.items():
        if v is None:
            os.environ.pop(k, None)
        else:
            os.environ[k] = v


def note(msg):
    return len(msg)


@contextlib.contextmanager
def preserve(*names):
    saved = dict((n, os.environ.get(n)) for n in names)
    try:
        yield
    finally:
        for n, v in saved.items():
            note(n)
            if v is None:
                os.environ.pop(n, None)
            else:
                os.environ[n] = v


class Guard(object):
    def __init__(self, names):
        self.names = names

    def __enter__(self):
        self.saved = dict((n, os.environ.get(n)) for n in self.names)

    def __exit__(self, *exc):
        self._put_back()
        return False

    def _put_back(self):
        for n, v in self.saved.items():
            note(n)
            os.environ.pop(n, None)
        for n, v in self.saved.items():
            if v is not None:
                os.environ[n] = v


def body(early=False):
    stage(0)
    if early:
        fail_early()
    os.environ['V1'] = 'new1'
    stage(1)
    os.environ['V2'] = 'new2'
    stage(2)
    stage(3)


def ok_inline_finally(early=False):
    saved = dict((n, os.environ.get(n)) for n in ('V1', 'V2'))
    try:
        body(early)
    finally:
        for k, v in saved.items():
            if v is None:
                if k in os.environ:
                    del os.environ[k]
            else:
                os.environ[k] = v


def ok_helper(early=False):
    saved = dict((n, os.environ.get(n)) for n in ('V1', 'V2'))
    try:
        body(early)
    finally:
        _restore(saved)


def ok_generator_cm(early=False):
    with preserve('V1', 'V2'):
        body(early)


def ok_class_cm_non_atomic(early=False):
    with Guard(('V1', 'V2')):
        body(early)


def ok_pop_then_update(early=False):
    saved = dict((n, os.environ.get(n)) for n in ('V1', 'V2'))
    try:
        body(early)
    finally:
        for k in saved:
            os.environ.pop(k, None)
        stage(9)
        os.environ.update(dict((k, v) for k, v in saved.items() if v is not None))


def ok_nested(early=False):
    stage(7)
    ok_helper(early)
    stage(8)


def ok_inline_cleanup_after_restore(early=False):
    saved = dict((n, os.environ.get(n)) for n in ('V1', 'V2'))
    try:
        body(early)
    finally:
        _restore(saved)
        cleanup()


def ok_two_cycles(early=False):
    # perturb and restore twice in one call: inline finally, then a helper
    saved = dict((n, os.environ.get(n)) for n in ('V1', 'V2'))
    try:
        body(early)
    finally:
        for k, v in saved.items():
            if v is None:
                os.environ.pop(k, None)
            else:
                os.environ[k] = v
    stage(4)
    try:
        os.environ['V1'] = 'again1'
        stage(5)
        os.environ['V2'] = 'again2'
        stage(6)
    finally:
        _restore(saved)
    stage(7)


def ok_three_cycles_cm(early=False):
    for n in (10, 20, 30):
        with Guard(('V1', 'V2')):
            os.environ['V2'] = 'cycle%d' % n
            stage(n)
            os.environ.pop('V1', None)
            stage(n + 1)
        stage(n + 2)
    if early:
        fail_early()


def bad_second_cycle_straight_line(early=False):
    saved = dict((n, os.environ.get(n)) for n in ('V1', 'V2'))
    try:
        body(early)
    finally:
        _restore(saved)
    stage(4)
    os.environ['V1'] = 'again1'
    stage(5)
    os.environ['V2'] = 'again2'
    stage(6)
    _restore(saved)


def bad_straight_line_between_cycles(early=False):
    for n in (10, 20, 30):
        saved = dict((k, os.environ.get(k)) for k in ('V1', 'V2'))
        try:
            os.environ['V1'] = 'c%d' % n
            os.environ['V2'] = 'c%d' % n
            stage(n)
        finally:
            _restore(saved)
        if n == 20:
            os.environ['V1'] = 'late'
            stage(n + 1)
            _restore(saved)


def _export():
    saved = dict((n, os.environ.get(n)) for n in ('V1', 'V2'))
    try:
        os.environ['V1'] = 'new1'
        note('exporting')
        os.environ['V2'] = 'new2'
    except Exception:
        _restore(saved)
        raise
    return saved


def ok_acquire_then_try(early=False):
    # the canonical idiom: the perturbing helper runs just before the try (twice per call)
    for n in (40, 50):
        stage(n)
        if early:
            fail_early()
        saved = _export()
        try:
            stage(n + 1)
            stage(3)
        finally:
            _restore(saved)


def _wrapped_body(early):
    body(early)
    return stage(6)


def ok_return_call_inside_try_finally(early=False):
    saved = dict((n, os.environ.get(n)) for n in ('V1', 'V2'))
    try:
        return _wrapped_body(early)
    finally:
        _restore(saved)


def bad_cleanup_before_restore(early=False):
    saved = dict((n, os.environ.get(n)) for n in ('V1', 'V2'))
    try:
        body(early)
    finally:
        cleanup()
        _restore(saved)


def bad_straight_line(early=False):
    saved = dict((n, os.environ.get(n)) for n in ('V1', 'V2'))
    body(early)
    _restore(saved)


def bad_only_v1(early=False):
    saved = dict((n, os.environ.get(n)) for n in ('V1', 'V2'))
    try:
        body(early)
    finally:
        _restore({'V1': saved['V1']})


def bad_except_oserror(early=False):
    saved = dict((n, os.environ.get(n)) for n in ('V1', 'V2'))
    try:
        body(early)
    except OSError:
        _restore(saved)
        raise
    else:
        _restore(saved)
'''


def main(argv=None):
    from ..world import inject
    tmp = tempfile.mkdtemp(prefix='pydlsim-unit-')
    old_prefix = inject.PYDL
    failures = 0
    try:
        pkg = os.path.join(tmp, 'minipydl')
        os.makedirs(pkg)
        with open(os.path.join(pkg, '__init__.py'), 'w') as f:
            f.write(textwrap.dedent(SRC))
        sys.path.insert(0, tmp)
        mod = importlib.import_module('minipydl')
        inject.PYDL = os.path.realpath(pkg) + os.sep
        base = dict(os.environ)
        names = [n for n in dir(mod) if n.startswith('ok_') or n.startswith('bad_')]
        for name in sorted(names):
            fn = getattr(mod, name)
            for early in (False, True, 'late'):
                for state in ({'V1': 'a', 'V2': None}, {'V1': None, 'V2': 'b'}, {'V1': '', 'V2': 'new2'}):
                    late = early == 'late'

                    def reset(late=late):
                        os.environ.clear()
                        os.environ.update(base)
                        if late:
                            os.environ['UNIT_LATE'] = '1'
                        for k, v in state.items():
                            if v is not None:
                                os.environ[k] = v
                    reset()
                    m, outcome, before, after = inject.run_monitored(lambda: fn(early is True), ('V1', 'V2'))
                    r, tblocked, twins, still_open = inject.fault_windows(m)
                    still_open = still_open | inject.mechanism_calls(m)
                    r_single = inject.admissibility(m)[0]
                    assert r >= r_single, (name, r, r_single)
                    win = min((mu['at'] for mu in m.mutations if mu.get('cleanup') is None), default=None)
                    rec_leak = inject.env_diff(before, after)
                    adm = [e for e in m.events[:r] if e['adm'] and not any(lo <= e['i'] < hi for lo, hi in tblocked)]
                    later = len([e for e in adm if e['i'] >= r_single])
                    flagged = inwin = 0
                    for e in adm:
                        for exc, when in (('OSError(EIO)', 'entry'), ('RuntimeError', 'entry'),
                                          ('ValueError', 'return')):
                            if when == 'return' and e['i'] in still_open:
                                continue
                            reset()
                            f = inject.Fault(e['i'], exc, (e['caller'], e['line'], e['callee']), when=when)
                            m2, o2, b2, a2 = inject.run_monitored(lambda: fn(early is True), ('V1', 'V2'), fault=f,
                                                                  keep_events=False)
                            assert m2.diverged is None, (name, e)
                            if when == 'entry':
                                assert m2.fired is not None, (name, e)
                            elif m2.fired is None:
                                assert early or m2.not_delivered, (name, e, 'return fault lost although the call returned')
                            d = inject.env_diff(b2, a2)
                            if d:
                                flagged += 1
                            if win is not None and e['i'] >= win:
                                inwin += 1
                    good = name.startswith('ok_')
                    if good:
                        ok = flagged == 0 and not rec_leak
                    elif ((early is True and 'cycle' not in name) or (name == 'bad_only_v1' and state['V2'] == 'new2')
                          or (name == 'bad_second_cycle_straight_line' and early is not False)):
                        ok = True          # nothing was (visibly) perturbed: nothing can leak
                    else:
                        ok = flagged > 0 or bool(rec_leak)
                    if 'cycle' in name and (early is False or name == 'ok_three_cycles_cm'):
                        ok = ok and later > 0      # the later cycles must be reached by fault points
                    if not ok:
                        failures += 1
                    print('%-4s %-30s early=%-5s state=%-28s events=%3d r=%3d admissible=%2d (later cycles %2d) '
                          'in-window=%2d flagged=%2d recording-leak=%s' % ('ok' if ok else 'FAIL', name, early, state,
                                                             m.n, r, len(adm), later, inwin, flagged, bool(rec_leak)))
        os.environ.clear()
        os.environ.update(base)
    finally:
        inject.PYDL = old_prefix
        if tmp in sys.path:
            sys.path.remove(tmp)
        shutil.rmtree(tmp, ignore_errors=True)
    print('unit_inject: %d failures' % failures)
    return 0 if failures == 0 else 2


if __name__ == '__main__':
    sys.exit(main())
