"""./check selftest determinism [--prop C20] [--runs N]
   ./check selftest sensitivity [--prop C20] [names...]
   ./check selftest noalarm [--prop C20] [names...]"""
import argparse
import sys


def main(argv):
    if not argv:
        print(__doc__)
        return 2
    if argv[0] == 'determinism':
        from . import determinism
        return determinism.main(argv[1:])
    if argv[0] == 'unit':
        from . import unit_inject
        return unit_inject.main(argv[1:])
    if argv[0] == 'seeded':
        from . import seeded
        return seeded.main(argv[1:])
    if argv[0] in ('sensitivity', 'noalarm'):
        from . import sensitivity
        return sensitivity.main(argv[0], argv[1:])
    print(__doc__)
    return 2
