"""./check selftest seeded [--verify] [names...]

For every kept adversarial change under /verif/seeded/<id>/ (patch.diff, demo.py,
meta.json): apply it to a scratch copy of /repo's working tree outside /repo
and /verif and run the registered check against the copy; a VIOLATION is
expected.  With --verify the demonstration is re-confirmed first: demo passes on
the unchanged tree, fails on the changed copy, and the repository's own test
suite still passes on the copy.
"""
import argparse
import glob
import json
import os
import shutil
import subprocess
import sys
import tempfile
import time

HERE = os.path.dirname(os.path.abspath(__file__))
VERIF = os.path.dirname(os.path.dirname(HERE))
REPO = os.environ.get('PYDLSIM_REPO', '/repo')
PY = '/venv/bin/python'


def full_copy(dst):
    subprocess.run(['rsync', '-a', '--exclude', '.git', '--exclude', '__pycache__', '--exclude', '*.pyc',
                    REPO + '/', dst + '/'], check=True)


def demo(path, pythonpath):
    env = dict(os.environ)
    env['PYTHONPATH'] = pythonpath
    env['PYTHONDONTWRITEBYTECODE'] = '1'
    env.setdefault('MPLCONFIGDIR', os.path.join(tempfile.gettempdir(), 'pydlsim-mpl'))
    pr = subprocess.run([PY, path], env=env, cwd=tempfile.gettempdir(), stdout=subprocess.PIPE,
                        stderr=subprocess.STDOUT, text=True, timeout=900)
    return pr.returncode, pr.stdout[-400:]


def main(argv):
    ap = argparse.ArgumentParser()
    ap.add_argument('names', nargs='*')
    ap.add_argument('--verify', action='store_true')
    ap.add_argument('--runs-c03', type=int, default=0)
    ap.add_argument('--runs-c20', type=int, default=0)
    a = ap.parse_args(argv)
    dirs = sorted(glob.glob(os.path.join(VERIF, 'seeded', '*', 'patch.diff')))
    if a.names:
        dirs = [d for d in dirs if any(n in d for n in a.names)]
    bad = 0
    for pf in dirs:
        d = os.path.dirname(pf)
        sid = os.path.basename(d)
        prop = sid.split('_')[0]
        tmp = tempfile.mkdtemp(prefix='pydlsim-seeded-')
        t0 = time.monotonic()
        try:
            copy = os.path.join(tmp, 'copy')
            os.makedirs(copy)
            full_copy(copy)
            pr = subprocess.run(['patch', '-p1', '-s', '-d', copy, '-i', pf], stdout=subprocess.PIPE,
                                stderr=subprocess.STDOUT, text=True)
            if pr.returncode != 0:
                print('FAIL %-10s patch does not apply: %s' % (sid, pr.stdout[-200:]))
                bad += 1
                continue
            info = {}
            if a.verify:
                rc0, out0 = demo(os.path.join(d, 'demo.py'), REPO)
                rc1, out1 = demo(os.path.join(d, 'demo.py'), copy)
                env = dict(os.environ)
                env['PYTHONPATH'] = copy
                pt = subprocess.run([PY, '-m', 'pytest', '-q', '-p', 'no:cacheprovider', '--timeout=900',
                                     '-x', 'pydl'], cwd=copy, env=env, stdout=subprocess.PIPE,
                                    stderr=subprocess.STDOUT, text=True, timeout=1800)
                tail = [l for l in pt.stdout.splitlines() if 'passed' in l or 'failed' in l][-1:]
                info = {'demo_unchanged_exit': rc0, 'demo_changed_exit': rc1,
                        'suite_on_changed': tail[0] if tail else 'rc=%d' % pt.returncode}
                confirmed = rc0 == 0 and rc1 != 0 and pt.returncode == 0
                info['confirmed'] = confirmed
            env = dict(os.environ)
            env['PYDLSIM_PYDL_PATH'] = copy
            env['PYDLSIM_REPLAY_DIR'] = os.path.join(tmp, 'replays')
            env['PYDLSIM_EVIDENCE_DIR'] = os.path.join(tmp, 'evidence')
            cmd = [os.path.join(VERIF, 'check'), prop]
            n = a.runs_c03 if prop == 'C03' else a.runs_c20
            if n:
                cmd += ['--runs', str(n)]
            pr = subprocess.run(cmd, env=env, stdout=subprocess.PIPE, stderr=subprocess.STDOUT, text=True,
                                timeout=3600)
            viol = [l for l in pr.stdout.splitlines() if l.startswith('VIOLATION ')]
            first = [l for l in pr.stdout.splitlines() if l.startswith('violation:')][:1]
            caught = pr.returncode == 1 and bool(viol)
            info.update({'check_exit': pr.returncode, 'caught': caught,
                         'first_violation': first[0][:300] if first else None})
            if not caught:
                bad += 1
                if pr.returncode not in (0, 1):
                    info['output_tail'] = pr.stdout[-500:]
            print('%-6s %-10s %s %.0fs %s' % ('caught' if caught else 'MISSED', sid, prop,
                                              time.monotonic() - t0, json.dumps(info)))
            sys.stdout.flush()
        finally:
            shutil.rmtree(tmp, ignore_errors=True)
    print('seeded: %d changes, %d missed' % (len(dirs), bad))
    return 0 if bad == 0 else 2
