"""Seeds, canonical JSON, digests.  Nothing here draws from a PRNG or reads a clock."""
import hashlib
import json
import math


def run_seed(prop, base, i):
    """Seed of run `i` of property `prop` under base seed `base` (VERIF_SEED)."""
    h = hashlib.blake2b("{0}:{1}:{2}".format(prop, base, i).encode(), digest_size=8)
    return int.from_bytes(h.digest(), 'big')


def _default(o):
    import numpy as np
    if isinstance(o, (np.integer,)):
        return int(o)
    if isinstance(o, (np.floating,)):
        return float(o)
    if isinstance(o, (bytes, np.bytes_)):
        return o.decode('latin-1')
    if isinstance(o, np.ndarray):
        return o.tolist()
    if isinstance(o, (set, frozenset)):
        return sorted(o)
    if isinstance(o, tuple):
        return list(o)
    raise TypeError("not JSON serialisable: %r" % (type(o),))


def canon(obj):
    return json.dumps(obj, sort_keys=True, separators=(',', ':'), default=_default)


def digest(obj):
    return hashlib.blake2b(canon(obj).encode(), digest_size=12).hexdigest()


def dumps(obj, **kw):
    return json.dumps(obj, default=_default, **kw)


def fkey(x):
    """A hashable, JSON-able key of a float that distinguishes -0.0, nan, inf."""
    x = float(x)
    if math.isnan(x):
        return 'nan'
    return x.hex()
