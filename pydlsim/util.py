"""Seeds, canonical JSON, digests.  Nothing here draws from a PRNG or reads a clock."""
import hashlib
import json
import math


def run_seed(prop, base, i):
    """Seed of run `i` of property `prop` under base seed `base` (VERIF_SEED)."""
    h = hashlib.blake2b("{0}:{1}:{2}".format(prop, base, i).encode(), digest_size=8)
    return int.from_bytes(h.digest(), 'big')


def _default(o):
    import numpy as np
    if isinstance(o, (np.integer,)):
        return int(o)
    if isinstance(o, (np.floating,)):
        return float(o)
    if isinstance(o, (bytes, np.bytes_)):
        return o.decode('latin-1')
    if isinstance(o, np.ndarray):
        return o.tolist()
    if isinstance(o, (set, frozenset)):
        return sorted(o)
    if isinstance(o, tuple):
        return list(o)
    raise TypeError("not JSON serialisable: %r" % (type(o),))


def canon(obj):
    return json.dumps(obj, sort_keys=True, separators=(',', ':'), default=_default)


def digest(obj):
    return hashlib.blake2b(canon(obj).encode(), digest_size=12).hexdigest()


def dumps(obj, **kw):
    return json.dumps(obj, default=_default, **kw)


def fkey(x):
    """A hashable, JSON-able key of a float that distinguishes -0.0, nan, inf."""
    x = float(x)
    if math.isnan(x):
        return 'nan'
    return x.hex()


def run_forked(fn, timeout=900.0):
    """Run fn() in a forked child and return its (picklable) result: nothing the call does to
    module-level state, the environment or the cwd of this process survives.  Raises
    RuntimeError if the child fails or does not finish."""
    import os
    import pickle
    import select
    import time
    import traceback
    r, w = os.pipe()
    pid = os.fork()
    if pid == 0:
        code = 0
        try:
            os.close(r)
            try:
                payload = {'ok': fn()}
            except BaseException:
                payload = {'error': traceback.format_exc()}
            with os.fdopen(w, 'wb') as f:
                pickle.dump(payload, f, protocol=pickle.HIGHEST_PROTOCOL)
        except BaseException:
            code = 3
        finally:
            os._exit(code)
    os.close(w)
    chunks = []
    t_end = time.monotonic() + timeout
    timed_out = False
    while True:
        left = t_end - time.monotonic()
        if left <= 0:
            timed_out = True
            break
        ready, _, _ = select.select([r], [], [], min(left, 5.0))
        if ready:
            b = os.read(r, 1 << 20)
            if not b:
                break
            chunks.append(b)
    os.close(r)
    if timed_out:
        try:
            os.kill(pid, 9)
        except OSError:
            pass
    os.waitpid(pid, 0)
    if timed_out:
        raise RuntimeError('forked call timed out after %.0fs' % timeout)
    payload = pickle.loads(b''.join(chunks)) if chunks else {'error': 'child died without a result'}
    if 'error' in payload:
        raise RuntimeError(payload['error'])
    return payload['ok']
