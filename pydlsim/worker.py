"""Worker: a fresh interpreter that executes a block of run indices of one check
and writes one JSON line per run.  Started by pydlsim.runner with a fixed
environment (PYTHONHASHSEED=0, single-threaded BLAS, TZ=UTC)."""
import argparse
import faulthandler
import importlib
import json
import os
import pkgutil
import sys
import time as _walltime
import traceback
import warnings


def preload():
    """Import every pydl module up front so that lazy `from .. import` statements
    inside functions cannot add first-use effects to the first run."""
    import astropy
    astropy.log.setLevel('ERROR')
    import pydl
    for m in pkgutil.walk_packages(pydl.__path__, 'pydl.'):
        if '.tests' in m.name or m.name.endswith('conftest') or 'setup_package' in m.name:
            continue
        try:
            importlib.import_module(m.name)
        except Exception:      # optional modules that need absent extras
            pass
    import astropy.io.fits      # noqa: F401
    import astropy.table        # noqa: F401
    import astropy.wcs          # noqa: F401
    import astropy.time         # noqa: F401
    import scipy.cluster.vq     # noqa: F401
    import scipy.linalg         # noqa: F401
    import matplotlib
    matplotlib.use('Agg')
    import matplotlib.pyplot    # noqa: F401
    import matplotlib.font_manager  # noqa: F401


def run_isolated(mod, seed, tier, scratch, timeout=900.0):
    """Execute one run in a forked child of this (preloaded, single-threaded) worker,
    so that no module-level state, environment variable, open file, cwd or warning
    filter can travel from one run to the next: a run in a worker is then the same
    thing as its replay in a fresh process.  Returns the result dict."""
    import select
    from . import util
    r, w = os.pipe()
    pid = os.fork()
    if pid == 0:
        code = 0
        try:
            os.close(r)
            try:
                res = mod.run_one(seed, tier, scratch=scratch)
            except BaseException:
                res = {'seed': seed, 'harness_error': traceback.format_exc()}
            data = util.dumps(res).encode()
            with os.fdopen(w, 'wb') as f:
                f.write(data)
        except BaseException:
            code = 3
        finally:
            os._exit(code)
    os.close(w)
    chunks = []
    t_end = _walltime.monotonic() + timeout
    timed_out = False
    while True:
        left = t_end - _walltime.monotonic()
        if left <= 0:
            timed_out = True
            break
        ready, _, _ = select.select([r], [], [], min(left, 5.0))
        if ready:
            b = os.read(r, 1 << 20)
            if not b:
                break
            chunks.append(b)
    os.close(r)
    if timed_out:
        try:
            os.kill(pid, 9)
        except OSError:
            pass
    _, status = os.waitpid(pid, 0)
    if timed_out:
        return {'seed': seed, 'harness_error': 'run timed out after %.0fs and was killed' % timeout}
    try:
        return json.loads(b''.join(chunks).decode())
    except ValueError:
        return {'seed': seed, 'harness_error': 'child died (wait status %d) without a result' % status}


def module_for(prop):
    return importlib.import_module('pydlsim.{0}.check'.format(prop.lower()))


def indices(a):
    """Run indices for this worker: a static slice, or - with --counter - blocks taken from
    a counter file shared by all workers of the batch (flock), so that one expensive run
    does not hold up the indices queued behind it.  Which worker executes a run has no
    influence on the run (fork isolation, seed derived from the index)."""
    if not a.counter:
        for i in range(a.start, a.stop, a.step):
            yield i
        return
    import fcntl
    while True:
        with open(a.counter, 'r+') as f:
            fcntl.flock(f, fcntl.LOCK_EX)
            nxt = int(f.read().strip() or 0)
            f.seek(0)
            f.truncate()
            f.write(str(nxt + a.block))
            f.flush()
            fcntl.flock(f, fcntl.LOCK_UN)
        if nxt >= a.stop:
            return
        for i in range(nxt, min(nxt + a.block, a.stop)):
            yield i


def main(argv=None):
    ap = argparse.ArgumentParser()
    ap.add_argument('--prop', required=True)
    ap.add_argument('--tier', default='quick')
    ap.add_argument('--base', type=int, default=0)
    ap.add_argument('--start', type=int, default=0)
    ap.add_argument('--stop', type=int, required=True)
    ap.add_argument('--step', type=int, default=1)
    ap.add_argument('--deadline', type=float, default=0.0, help='wall seconds from start; 0 = none')
    ap.add_argument('--out', required=True)
    ap.add_argument('--scratch', default=None)
    ap.add_argument('--hard-timeout', type=float, default=0.0)
    ap.add_argument('--no-fork', action='store_true')
    ap.add_argument('--counter', default=None)
    ap.add_argument('--block', type=int, default=1)
    a = ap.parse_args(argv)
    faulthandler.enable()
    if a.hard_timeout > 0:
        faulthandler.dump_traceback_later(a.hard_timeout, exit=True)
    warnings.simplefilter('ignore')
    from . import util
    preload()
    mod = module_for(a.prop)
    t0 = _walltime.monotonic()
    with open(a.out, 'w') as out:
        out.write(json.dumps({'hello': True, 'pid': os.getpid(), 'hashseed': os.environ.get('PYTHONHASHSEED')}) + '\n')
        out.flush()
        for i in indices(a):
            if a.deadline > 0 and _walltime.monotonic() - t0 > a.deadline:
                out.write(json.dumps({'budget_exhausted_at': i}) + '\n')
                break
            seed = util.run_seed(a.prop, a.base, i)
            if a.no_fork:
                try:
                    res = mod.run_one(seed, a.tier, scratch=a.scratch)
                except Exception:
                    res = {'seed': seed, 'harness_error': traceback.format_exc()}
            else:
                res = run_isolated(mod, seed, a.tier, a.scratch)
            res['i'] = i
            out.write(util.dumps(res) + '\n')
            out.flush()
        out.write(json.dumps({'done': True}) + '\n')
    return 0


if __name__ == '__main__':
    sys.exit(main())
