"""Simulated wall clock and stand-ins for the `datetime` and `time` modules.

SimClock is a counter of seconds since the Unix epoch.  Every reading advances
it by the next amount of a pre-drawn tick list (cycled), so that a run
description (start + ticks + explicit jumps) fully determines every reading.
"""
import datetime as _real_datetime
import types

_MIN = -62135596800.0        # 0001-01-01T00:00:00Z
_MAX = 253402300799.0        # 9999-12-31T23:59:59Z


class SimClock(object):
    def __init__(self, start=1.7e9, ticks=(0.5,)):
        self.now = float(start)
        self.ticks = [float(t) for t in ticks] or [0.0]
        self.nread = 0
        self.covered = 0.0         # simulated seconds that elapsed through readings/jumps
        self.readings = []

    def _clamp(self):
        if self.now < _MIN:
            self.now = _MIN
        if self.now > _MAX:
            self.now = _MAX

    def read(self):
        t = self.ticks[self.nread % len(self.ticks)]
        self.nread += 1
        old = self.now
        self.now += t
        self._clamp()
        self.covered += abs(self.now - old)
        self.readings.append(self.now)
        return self.now

    def jump(self, by=None, to=None):
        old = self.now
        if to is not None:
            self.now = float(to)
        else:
            self.now += float(by)
        self._clamp()
        self.covered += abs(self.now - old)

    # -- stand-ins -----------------------------------------------------
    def time_module(self):
        """Something that quacks like the `time` module for pydl's uses."""
        import time as _t
        ns = types.SimpleNamespace()
        ns.time = self.read
        ns.gmtime = lambda secs=None: _t.gmtime(self.read() if secs is None else secs)
        ns.localtime = ns.gmtime
        ns.strftime = _t.strftime
        ns.sleep = lambda s: self.jump(by=s)
        ns.monotonic = self.read
        ns.perf_counter = self.read
        return ns

    def datetime_module(self):
        """Something that quacks like the `datetime` module: `datetime.datetime.utcnow()`,
        `datetime.datetime.now(tz)`, `datetime.UTC`, `datetime.timezone`, `timedelta`."""
        clock = self
        real = _real_datetime

        class datetime(real.datetime):
            @classmethod
            def utcnow(cls):
                return _from_ts(cls, clock.read(), None)

            @classmethod
            def now(cls, tz=None):
                d = _from_ts(cls, clock.read(), real.timezone.utc)
                if tz is None:
                    return d.replace(tzinfo=None)
                return d.astimezone(tz)

            @classmethod
            def today(cls):
                return cls.now()

        ns = types.SimpleNamespace()
        for name in dir(real):
            if not name.startswith('__'):
                setattr(ns, name, getattr(real, name))
        ns.datetime = datetime
        return ns


def _from_ts(cls, ts, tz):
    base = cls(1970, 1, 1, tzinfo=tz)
    return base + _real_datetime.timedelta(seconds=ts)


class Seams(object):
    """Rebinds module-global names for the duration of a run; `restore()` undoes it."""

    def __init__(self):
        self._saved = []

    def set(self, module, name, value):
        missing = object()
        self._saved.append((module, name, getattr(module, name, missing), missing))
        setattr(module, name, value)

    def restore(self):
        for module, name, old, missing in reversed(self._saved):
            if old is missing:
                try:
                    delattr(module, name)
                except AttributeError:
                    pass
            else:
                setattr(module, name, old)
        self._saved = []


def install_clock(seams, module, clock):
    """Put `clock` behind whatever time source `module` imported under the usual
    names.  Unknown spellings are left alone (the run stays correct, only a
    timestamp in a comment line is then the real one)."""
    import time as _time
    d = getattr(module, 'datetime', None)
    fake = clock.datetime_module()
    if d is _real_datetime:
        seams.set(module, 'datetime', fake)
    elif d is _real_datetime.datetime:
        seams.set(module, 'datetime', fake.datetime)
    t = getattr(module, 'time', None)
    if t is _time:
        seams.set(module, 'time', clock.time_module())
    elif t is _time.time:
        seams.set(module, 'time', clock.read)
