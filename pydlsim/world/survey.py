"""Synthetic survey trees for C20: spPlate / photoPlate / spZbest files, a photo
tree (window_flist, fpFieldStat, psField), template parameter files, and the
storage damage operations (EOF at an arbitrary byte, flipped byte, zero
length, missing).  Everything is a pure function of the description dict it
is given; no PRNG, no clock.
"""
import os

import numpy as np
from astropy.io import fits

MASKBITS = {
    'SPPIXMASK': {'NOPLUG': 0, 'BADTRACE': 1, 'BADFLAT': 2, 'BADARC': 3, 'NODATA': 24,
                  'BADSKYCHI': 22, 'REDMONSTER': 28, 'BRIGHTSKY': 23, 'COMBINEREJ': 25},
    'IMAGE_STATUS': {'CLEAR': 0, 'CLOUDY': 1, 'UNKNOWN': 2, 'FF_PETALS': 3, 'DEAD_CCD': 4,
                     'NOISY_CCD': 5, 'BAD_ROTATOR': 6, 'BAD_ASTROM': 7, 'BAD_FOCUS': 8,
                     'SHUTTERS': 9},
}


def damage_file(path, damage):
    """Apply a storage fault to an existing file."""
    if damage is None:
        return
    kind = damage['kind']
    if kind == 'missing':
        os.remove(path)
    elif kind == 'zero':
        open(path, 'wb').close()
    elif kind == 'truncate':
        size = os.path.getsize(path)
        at = int(damage['frac'] * size)
        with open(path, 'r+b') as f:
            f.truncate(at)
    elif kind == 'flip':
        size = os.path.getsize(path)
        at = min(size - 1, int(damage['frac'] * min(size, 2880)))
        with open(path, 'r+b') as f:
            f.seek(at)
            b = f.read(1)
            f.seek(at)
            f.write(bytes([b[0] ^ damage.get('mask', 0x55)]))
    elif kind == 'garbage':
        with open(path, 'wb') as f:
            f.write(bytes((37 * i + 11) % 251 for i in range(damage.get('n', 300))))
    elif kind == 'directory':
        os.remove(path)
        os.mkdir(path)
    else:
        raise ValueError(kind)


def build_spectro(root, sp):
    """sp: {'run2d','run1d','npix','c0','c1','noise_seed','plates':[{plate,mjd,nfib,masks,
    photoplate,zbest,damage}]}.  Returns the redux top directory."""
    redux = os.path.join(root, 'redux')
    rng = np.random.default_rng(sp['noise_seed'])
    npix = sp['npix']
    for pl in sp['plates']:
        plate, mjd, nfib = pl['plate'], pl['mjd'], pl['nfib']
        d = os.path.join(redux, sp['run2d'], '{0:04d}'.format(plate))
        os.makedirs(os.path.join(d, sp['run1d']), exist_ok=True)
        x = np.arange(npix)
        flux = np.zeros((nfib, npix), dtype='f4')
        for i in range(nfib):
            flux[i] = (5 + 2*np.sin(x/(10.0 + i)) + 0.5*np.cos(x/(3.0 + 0.5*i)) + i +
                       rng.normal(0, 0.1, npix))
        ivar = np.ones((nfib, npix), dtype='f4')*4
        if pl.get('nan_flux'):
            flux[0, 40:43] = np.nan
            flux[nfib - 1, 7] = np.inf
        nbad = pl.get('nbadpix', 0)
        if nbad:
            ivar[:, 5:5+nbad] = 0
        h = fits.PrimaryHDU(flux)
        if not pl.get('no_coeff'):
            h.header['COEFF0'] = sp['c0'] + pl.get('dc0', 0.0)
        h.header['COEFF1'] = sp['c1']
        mdt = {'u8': 'u8', 'i4': 'i4', 'i8': 'i8'}[pl.get('masks', 'u8')]
        am = np.zeros((nfib, npix), dtype=mdt)
        om = np.zeros((nfib, npix), dtype=mdt)
        if pl.get('skybits'):
            om[:, 30:33] = 1 << 22
        cols = [fits.Column(name='FIBERID', format='J', array=np.arange(nfib) + 1),
                fits.Column(name='RA', format='D', array=rng.uniform(0, 360, nfib)),
                fits.Column(name='DEC', format='D', array=rng.uniform(-10, 10, nfib))]
        fn = os.path.join(d, 'spPlate-{0:04d}-{1:05d}.fits'.format(plate, mjd))
        fits.HDUList([h, fits.ImageHDU(ivar), fits.ImageHDU(am), fits.ImageHDU(om),
                      fits.ImageHDU(np.ones((nfib, npix), dtype='f4')),
                      fits.BinTableHDU.from_columns(cols),
                      fits.ImageHDU(np.zeros((nfib, npix), dtype='f4'))]).writeto(fn)
        damage_file(fn, pl.get('damage'))
        if pl.get('photoplate', True):
            pf = os.path.join(d, 'photoPlate-{0:04d}-{1:05d}.fits'.format(plate, mjd))
            fits.HDUList([fits.PrimaryHDU(), fits.BinTableHDU.from_columns(
                [fits.Column(name='OBJID', format='K', array=np.arange(nfib))])]).writeto(pf)
            damage_file(pf, pl.get('photo_damage'))
        if pl.get('zbest', False):
            zf = os.path.join(d, sp['run1d'], 'spZbest-{0:04d}-{1:05d}.fits'.format(plate, mjd))
            fits.HDUList([fits.PrimaryHDU(), fits.BinTableHDU.from_columns(
                [fits.Column(name='Z', format='E', array=np.linspace(0.0, 0.01, nfib)),
                 fits.Column(name='FIBERID', format='J', array=np.arange(nfib) + 1)])]).writeto(zf)
            damage_file(zf, pl.get('z_damage'))
    return redux


def write_par(path, par):
    """par: {'pairs': [[key, value], ...], 'table': None | {'columns': [[type, name], ...],
    'rows': [[...], ...]}, 'damage': ...}"""
    with open(path, 'w') as f:
        f.write("#\n# template input (synthetic)\n#\n")
        for k, v in par['pairs']:
            f.write("{0} {1}\n".format(k, v))
        t = par.get('table')
        if t is not None:
            f.write("\ntypedef struct {\n")
            for typ, name in t['columns']:
                f.write("    {0} {1};\n".format(typ, name))
            f.write("} EIGENOBJ;\n\n")
            for r in t['rows']:
                f.write("EIGENOBJ " + " ".join(str(x) for x in r) + "\n")
    damage_file(path, par.get('damage'))


def build_photo(root, ph):
    """ph: {'rerun', 'fields': [{run, camcol, field, fpfieldstat, psfield, xbin}], 'flist_damage',
    'status_dtype'}.  Returns (resolve_dir, redux_dir)."""
    resolve = os.path.join(root, 'rw', 'resolve')
    redux = os.path.join(root, 'photoredux')
    os.makedirs(resolve, exist_ok=True)
    flds = ph['fields']
    n = len(flds)
    rerun = ph['rerun']
    runs = [f['run'] for f in flds]
    camcols = [f['camcol'] for f in flds]
    fields = [f['field'] for f in flds]
    cols = [fits.Column(name='RUN', format='J', array=runs),
            fits.Column(name='CAMCOL', format='J', array=camcols),
            fits.Column(name='FIELD', format='J', array=fields),
            fits.Column(name='RERUN', format='3A', array=[rerun]*n),
            fits.Column(name='PHOTO_STATUS', format='J', array=np.zeros(n)),
            fits.Column(name='PSP_STATUS', format='5J', array=np.zeros((n, 5))),
            fits.Column(name='PSF_FWHM', format='5E', array=np.ones((n, 5))),
            fits.Column(name='SKYFLUX', format='5E', array=np.ones((n, 5))),
            fits.Column(name='XBIN', format='J', array=[f.get('xbin', 1) for f in flds]),
            fits.Column(name='YBIN', format='J', array=np.ones(n)),
            fits.Column(name='IMAGE_STATUS', format='5J', array=np.zeros((n, 5))),
            fits.Column(name='SUN_ANGLE', format='E', array=-20*np.ones(n)),
            fits.Column(name='SCORE', format='E', array=np.zeros(n))]
    fl = os.path.join(resolve, 'window_flist.fits')
    pre = [fits.ImageHDU()] if ph.get('flist_layout') == 'image_ext_first' else []
    fits.HDUList([fits.PrimaryHDU()] + pre + [fits.BinTableHDU.from_columns(cols)]).writeto(fl)
    damage_file(fl, ph.get('flist_damage'))
    for f in flds:
        r, c, fld = f['run'], f['camcol'], f['field']
        d = os.path.join(redux, rerun, str(r), 'objcs', str(c))
        os.makedirs(d, exist_ok=True)
        fp = f.get('fpfieldstat', 'ok')
        if fp != 'missing':
            p = os.path.join(d, 'fpFieldStat-{0:06d}-{1}-{2:04d}.fit'.format(r, c, fld))
            if not os.path.exists(p):
                fits.HDUList([fits.PrimaryHDU(), fits.BinTableHDU.from_columns(
                    [fits.Column(name='status', format='J', array=[0])])]).writeto(p)
                damage_file(p, None if fp == 'ok' else fp)
        ps = f.get('psfield', 'ok')
        if ps != 'missing':
            p = os.path.join(d, 'psField-{0:06d}-{1}-{2:04d}.fit'.format(r, c, fld))
            if not os.path.exists(p):
                t = fits.BinTableHDU.from_columns(
                    [fits.Column(name='status', format='5J', array=np.zeros((1, 5))),
                     fits.Column(name='psf_width', format='5E', array=np.ones((1, 5))),
                     fits.Column(name='sky', format='5E', array=np.ones((1, 5)))])
                fits.HDUList([fits.PrimaryHDU()] + [fits.ImageHDU(np.zeros((2, 2)))
                                                    for _ in range(5)] + [t]).writeto(p)
                damage_file(p, None if ps == 'ok' else ps)
    return resolve, redux


def tree_listing(top):
    """(relative path, size) of every file under top, sorted: a cheap fingerprint to
    assert that the read-only part of the world stayed read-only."""
    out = []
    for dp, dn, fn in os.walk(top):
        dn.sort()
        for f in sorted(fn):
            p = os.path.join(dp, f)
            out.append((os.path.relpath(p, top), os.path.getsize(p)))
    return out
