"""A matplotlib backend under a name that is not one of the built-in file backends:
stands in for "some interactive / notebook backend is configured in this process"
(third-party process state a plotting stage may react to).  Functionally Agg."""
from matplotlib.backends.backend_agg import FigureCanvasAgg as FigureCanvas  # noqa: F401
from matplotlib.backend_bases import FigureManagerBase as FigureManager     # noqa: F401
