"""Fault injection at collaborator calls, on sys.monitoring (PEP 669, Python 3.12).

One deterministic event sequence per invocation, merged from two sources:

* ``CALL`` events raised in pydl code whose callee is *not* a pydl Python
  function (astropy, numpy, C builtins ...);
* ``PY_START`` events of pydl functions whose caller frame is pydl code
  (covers ``f(*a, **kw)`` calls, which emit no CALL event for Python callees on
  3.12, ``__init__`` of pydl classes and pydl properties).

An exception raised from either callback propagates into the monitored frame
exactly as if the callee had raised on entry; ``finally`` blocks, ``with``
exits and ``except`` handlers then run as deployed.

``PY_START`` on ``os._Environ.__setitem__/__delitem__`` marks the instants the
environment is mutated, with the in-progress call events at that instant
(matched by stack depth + code object + f_lasti; ``id(frame)`` is reused by
CPython and cannot be used).

Nothing in this module draws random numbers or reads a clock.
"""
import os
import sys

import pydl

PYDL = os.path.dirname(os.path.abspath(pydl.__file__)) + os.sep
HARNESS = os.path.dirname(os.path.dirname(os.path.abspath(__file__))) + os.sep

mon = sys.monitoring
EV = mon.events
TOOL = 4
_tool_claimed = False

_ENVT = type(os.environ)
ENV_CODES = {_ENVT.__setitem__.__code__: 'set', _ENVT.__delitem__.__code__: 'del'}
ENV_READ_CODE = _ENVT.__getitem__.__code__     # get(), `in`, setdefault(), os.getenv() all end here

TRIVIAL_BUILTIN_TYPES = (str, bytes, bytearray, dict, list, tuple, set, frozenset, int,
                         float, bool, complex, type(None), range, slice)
STAGE_TOPS = ('pydl', 'astropy', 'numpy', 'scipy', 'matplotlib', 'pickle', 'glob',
              'warnings', 'shutil', 'tempfile', 'os', 'erfa')
IO_BUILTINS = ('open', 'load', 'dump', 'loads', 'dumps', 'remove', 'unlink', 'rename',
               'replace', 'mkdir', 'makedirs', 'rmdir', 'listdir', 'scandir', 'stat')


def _label(callable_):
    mod = getattr(callable_, '__module__', None)
    qn = getattr(callable_, '__qualname__', None)
    if qn is None:
        qn = getattr(callable_, '__name__', None)
    if qn is None:
        qn = type(callable_).__name__
    if mod is None:
        selfobj = getattr(callable_, '__self__', None)
        if selfobj is not None and not isinstance(selfobj, type(sys)):
            mod = type(selfobj).__module__
    return "{0}.{1}".format(mod, qn)


def classify(callable_):
    """-> (admissible_as_fault_site, label).  Rule 2 of DESIGN.md 5.4: a stage,
    not a triviality; never a method of os.environ itself."""
    label = _label(callable_)
    mod = getattr(callable_, '__module__', None) or ''
    qn = getattr(callable_, '__qualname__', None) or type(callable_).__name__
    selfobj = getattr(callable_, '__self__', None)
    if selfobj is os.environ or isinstance(selfobj, _ENVT):
        return False, label
    if callable_ in (os.getenv, os.putenv, os.unsetenv):
        return False, label
    top = mod.split('.')[0]
    if isinstance(callable_, type):
        if callable_ in TRIVIAL_BUILTIN_TYPES or mod == 'builtins':
            return False, label
        return top in ('astropy', 'numpy', 'scipy', 'matplotlib', 'pickle', 'pydl'), label
    func = getattr(callable_, '__func__', callable_)
    if hasattr(func, '__code__'):
        # a Python function or bound Python method
        if top == 'logging' or mod.startswith('astropy.logger'):
            return False, label
        if mod in ('posixpath', 'genericpath', 'ntpath'):
            return False, label
        if selfobj is not None and (type(selfobj).__module__ or '').startswith('astropy.logger'):
            return False, label
        return top in STAGE_TOPS, label
    # builtin function or method
    if selfobj is not None and isinstance(selfobj, TRIVIAL_BUILTIN_TYPES):
        return False, label
    if mod in ('_pickle', '_io', 'io', 'posix', 'nt', 'builtins'):
        return qn.split('.')[-1] in IO_BUILTINS, label
    if top == 'numpy':
        return True, label
    return False, label


_NEXT = {}


def _next_offset(code, lasti):
    """Offset of the instruction that follows the call instruction containing `lasti`
    (f_lasti may point at the CALL or into its inline cache entries)."""
    import dis
    offs = _NEXT.get(code)
    if offs is None:
        offs = [i.offset for i in dis.get_instructions(code)]
        _NEXT[code] = offs
    j = 0
    for idx, o in enumerate(offs):
        if o <= lasti:
            j = idx
        else:
            break
    return offs[j + 1] if j + 1 < len(offs) else -1


_EXC = {}


def _handler_at(code, off):
    """Target of the innermost exception-table entry that covers instruction offset `off`
    (None when an exception raised there leaves the frame)."""
    import dis
    tab = _EXC.get(code)
    if tab is None:
        tab = _EXC[code] = list(dis._parse_exception_table(code))
    for e in tab:                      # entries are ordered so that the first match is the innermost
        if e.start <= off < e.end:
            return e.target
    return None


def _depth(f):
    n = 0
    while f is not None:
        n += 1
        f = f.f_back
    return n


def code_key(code):
    fn = code.co_filename
    if fn.startswith(PYDL):
        fn = fn[len(PYDL):]
    return "{0}:{1}".format(fn, code.co_qualname)


class Fault(object):
    """What to raise, and where."""
    __slots__ = ('k', 'exc_name', 'identity', 'occ', 'seen', 'when')

    def __init__(self, k, exc_name, identity=None, occ=None, when='entry'):
        self.k = k                    # event index (sweeps), verified against identity
        self.exc_name = exc_name
        self.identity = tuple(identity) if identity is not None else None
        self.occ = occ                # replay addressing: the occ-th event with this identity
        self.seen = 0
        # 'entry': the collaborator fails before doing anything; 'return': it completes its
        # effect (file written, dump created ...) and the failure surfaces as it returns
        self.when = when


def make_exception(name):
    import errno
    from pydl.pydlutils import PydlutilsException
    from pydl.pydlspec2d import Pydlspec2dException
    from pydl.photoop import PhotoopException
    table = {
        'OSError(EIO)': lambda: OSError(errno.EIO, 'injected I/O error'),
        'OSError(ENOSPC)': lambda: OSError(errno.ENOSPC, 'injected: no space left on device'),
        'PermissionError': lambda: PermissionError(errno.EACCES, 'injected: permission denied'),
        'FileNotFoundError': lambda: FileNotFoundError(errno.ENOENT, 'injected: no such file'),
        'KeyError': lambda: KeyError('injected'),
        'ValueError': lambda: ValueError('injected'),
        'TypeError': lambda: TypeError('injected'),
        'MemoryError': lambda: MemoryError('injected'),
        'RuntimeError': lambda: RuntimeError('injected'),
        'PydlutilsException': lambda: PydlutilsException('injected'),
        'Pydlspec2dException': lambda: Pydlspec2dException('injected'),
        'PhotoopException': lambda: PhotoopException('injected'),
        # not an Exception subclass: used for observations only, never for verdicts
        'SystemExit': lambda: SystemExit('injected'),
    }
    return table[name]()


OSERROR_FAMILY = ('OSError(EIO)', 'OSError(ENOSPC)', 'PermissionError', 'FileNotFoundError')
OTHER_FAMILY = ('KeyError', 'ValueError', 'TypeError', 'MemoryError', 'RuntimeError',
                'PydlutilsException', 'Pydlspec2dException', 'PhotoopException')


class Monitor(object):
    def __init__(self, touched, fault=None, keep_events=True):
        self.touched = tuple(touched)
        # one Fault, or a chain [A, B, ...]: B becomes active only after A was delivered
        # (a failure while the first failure is being handled)
        self.queue = list(fault) if isinstance(fault, (list, tuple)) else ([fault] if fault else [])
        self.fault = self.queue.pop(0) if self.queue else None
        self.fired_all = []
        self.keep = keep_events
        self.events = []          # dicts (recording) or None placeholders (injected runs)
        self.n = 0
        self.mutations = []          # of the touched variables
        self.other_mutations = []    # of any other environment variable
        self.reads = []              # environment variables the code under test looked up, in order
        self.fired = None
        self.diverged = None
        self.active = False
        self.at_depth = {}        # caller depth -> (event idx, caller code, caller f_lasti)
        self.pending = None       # an armed fail-on-return fault
        self.raise_n = {}         # depth of a pydl frame -> event count when an exception last arrived in it
        self.not_delivered = 0    # return-faults whose call raised by itself (nothing to add)
        self.tv0 = None           # values of the touched variables when the invocation started

    def _tv(self):
        g = os.environ.get
        return tuple(g(v) for v in self.touched)

    def _event(self, caller_frame, label, adm, kind):
        code = caller_frame.f_code
        idx = self.n
        d = _depth(caller_frame)
        at = self.at_depth
        for dd in [x for x in at if x > d]:
            del at[dd]
        at[d] = (idx, code, caller_frame.f_lasti)
        self.n = idx + 1
        f = self.fault
        hit = False
        if f is not None:
            if f.occ is not None:
                if (code.co_qualname, caller_frame.f_lineno, label) == f.identity:
                    f.seen += 1
                    hit = f.seen == f.occ
            else:
                hit = f.k == idx
        if self.keep or hit:
            ev = dict(i=idx, caller=code.co_qualname, ckey=code_key(code),
                      line=caller_frame.f_lineno, callee=label, adm=adm, tv=self._tv(),
                      kind=kind, d=d)
            if self.keep:
                self.events.append(ev)
        if hit:
            ident = (ev['caller'], ev['line'], ev['callee'])
            if f.identity is not None and f.identity != ident:
                self.diverged = dict(expected=list(f.identity), got=list(ident))
                self.fault = None
                self.queue = []
                return
            if f.when == 'return':
                # arm: raise when this frame executes its next instruction after the call
                self.fault = None
                nxt = _next_offset(code, caller_frame.f_lasti)
                if nxt < 0 or _handler_at(code, nxt) != _handler_at(code, caller_frame.f_lasti):
                    # `return f()` inside try/finally and the like: the instruction after the call is
                    # already outside the protected range, an exception raised there would skip the
                    # handlers a failure of the callee itself would meet.  Not a faithful fault: skip.
                    self.not_delivered += 1
                    self.fault = self.queue.pop(0) if self.queue else None
                    return
                self.pending = dict(frame=caller_frame, code=code, next=nxt,
                                    fault=f, ev=ev)
                mon.set_local_events(TOOL, code, EV.INSTRUCTION)
                return
            if self.fired is None:
                self.fired = ev
            self.fired_all.append(ev)
            self.fault = self.queue.pop(0) if self.queue else None
            raise make_exception(f.exc_name)

    def on_raise(self, code, off, exc):
        # an exception is raised in, or propagates into, a frame (cannot be DISABLEd)
        if self.active and code.co_filename.startswith(PYDL):
            self.raise_n[_depth(sys._getframe(1))] = self.n
        return None

    def on_instruction(self, code, off):
        p = self.pending
        if p is None or not self.active or code is not p['code']:
            return None
        if sys._getframe(1) is not p['frame']:
            return None
        self.pending = None
        mon.set_local_events(TOOL, code, 0)
        if off != p['next']:
            # the call did not return normally (it raised and a handler of this frame runs)
            self.not_delivered += 1
            self.fault = self.queue.pop(0) if self.queue else None
            return None
        if self.fired is None:
            self.fired = p['ev']
        self.fired_all.append(p['ev'])
        self.fault = self.queue.pop(0) if self.queue else None
        raise make_exception(p['fault'].exc_name)

    def disarm(self):
        p = self.pending
        if p is not None:
            self.pending = None
            self.not_delivered += 1
            try:
                mon.set_local_events(TOOL, p['code'], 0)
            except ValueError:
                pass

    def on_call(self, code, off, callable_, arg0):
        if not self.active:
            return None
        if not code.co_filename.startswith(PYDL) or code.co_name == '<module>':
            return mon.DISABLE
        func = getattr(callable_, '__func__', callable_)
        c = getattr(func, '__code__', None)
        if c is not None and c.co_filename.startswith(PYDL):
            return None   # pydl Python callee: PY_START reports it
        if (isinstance(callable_, type) and (callable_.__module__ or '').startswith('pydl')
                and hasattr(callable_.__init__, '__code__')):
            return None   # pydl class with a Python __init__: PY_START reports it
        adm, label = classify(callable_)
        self._event(sys._getframe(1), label, adm, 'CALL')
        return None

    def on_start(self, code, off):
        if not self.active:
            return None
        if code is ENV_READ_CODE:
            key = sys._getframe(1).f_locals.get('key')
            if isinstance(key, str) and key not in self.reads:
                self.reads.append(key)
            return None
        op = ENV_CODES.get(code)
        if op is not None:
            fr = sys._getframe(1)
            key = fr.f_locals.get('key')
            if True:     # every variable, not only the designated ones
                anc = []
                stack = []
                # Is an exception in flight, and in which pydl frame is it being handled?
                # A mutation made while a failure is being handled is clean-up, never a
                # perturbation (rule 1b of DESIGN.md 5.4).
                exc = sys.exception()
                # frames the in-flight exception has passed through or been thrown into; the
                # frame that handles it is the OUTERMOST pydl frame of the current stack among
                # them (a generator context manager resumed by throw() is in the chain too, but
                # it was entered on behalf of the `with` statement's frame further out)
                chain = set()
                tb = exc.__traceback__ if exc is not None else None
                while tb is not None:
                    chain.add(tb.tb_frame)
                    tb = tb.tb_next
                hdepth = None
                g = fr.f_back
                while g is not None:
                    gc = g.f_code
                    dg = _depth(g)
                    if gc.co_filename.startswith(PYDL):
                        stack.append(code_key(gc))
                    if g in chain and gc.co_filename.startswith(PYDL):
                        hdepth = dg          # keeps the outermost one: we walk outwards
                    ent = self.at_depth.get(dg)
                    # a CALL event sees f_lasti at the CALL instruction; while the callee
                    # runs the caller's f_lasti has moved over the inline cache entries
                    if ent is not None and ent[1] is gc and 0 <= g.f_lasti - ent[2] <= 8:
                        anc.append((ent[0], dg))
                    g = g.f_back
                cleanup = None
                if hdepth is not None:
                    cleanup = sorted(i for i, dg in anc if dg >= hdepth)
                val = fr.f_locals.get('value') if op == 'set' else None
                rec = dict(op=op, key=key, at=self.n, enclosing=sorted(i for i, _ in anc),
                           stack=stack, cleanup=cleanup, hdepth=hdepth,
                           val=val if (val is None or isinstance(val, str)) else ['not-a-string'],
                           arrived=self.raise_n.get(hdepth) if hdepth is not None else None)
                if key in self.touched:
                    self.mutations.append(rec)
                else:
                    self.other_mutations.append(rec)
            return None
        if not code.co_filename.startswith(PYDL) or code.co_name == '<module>':
            return mon.DISABLE
        fr = sys._getframe(1)
        caller = fr.f_back
        if caller is None or not caller.f_code.co_filename.startswith(PYDL):
            return None
        label = "pydl.{0}.{1}".format(code.co_filename[len(PYDL):-3].replace(os.sep, '.'),
                                      code.co_qualname)
        self._event(caller, label, True, 'PY_START')
        return None


_C_ENVIRON = None


def c_environ():
    """The process environment as the C library holds it (what a child process would
    inherit), independent of the os.environ mapping: os.putenv()/os.unsetenv() and C
    extensions change it without os.environ noticing.  -> {name: value} (str, surrogateescape)."""
    global _C_ENVIRON
    import ctypes
    if _C_ENVIRON is None:
        _C_ENVIRON = ctypes.POINTER(ctypes.c_char_p).in_dll(ctypes.CDLL(None), 'environ')
    out = {}
    i = 0
    arr = _C_ENVIRON
    while True:
        item = arr[i]
        if item is None:
            break
        k, _, v = item.partition(b'=')
        k = os.fsdecode(k)
        if k not in out:            # getenv() returns the first match
            out[k] = os.fsdecode(v)
        i += 1
    return out


def _claim():
    global _tool_claimed
    if not _tool_claimed:
        if mon.get_tool(TOOL) is None:
            mon.use_tool_id(TOOL, 'pydlsim')
        _tool_claimed = True


def run_monitored(fn, touched, fault=None, keep_events=True):
    """Run fn() with the monitor on.  Returns (monitor, outcome, before, after) where
    outcome = ('returned', None) | ('raised', exception) and before/after are
    snapshots of os.environ taken immediately around the call."""
    _claim()
    m = Monitor(touched, fault=fault, keep_events=keep_events)
    mon.register_callback(TOOL, EV.CALL, m.on_call)
    mon.register_callback(TOOL, EV.PY_START, m.on_start)
    mon.register_callback(TOOL, EV.INSTRUCTION, m.on_instruction)
    mon.register_callback(TOOL, EV.RAISE, m.on_raise)
    mon.restart_events()
    mon.set_events(TOOL, EV.CALL | EV.PY_START | EV.RAISE)
    outcome = ('returned', None)
    before = dict(os.environ)
    c_before = c_environ()
    m.tv0 = m._tv()
    m.active = True
    try:
        fn()
    except Exception as e:      # the property speaks of errors raised by stages
        m.active = False
        outcome = ('raised', e)
    except SystemExit as e:     # only ever injected by the harness itself (observation runs)
        m.active = False
        if 'injected' not in str(e):
            raise
        outcome = ('raised', e)
    finally:
        m.active = False
        after = dict(os.environ)
        c_after = c_environ()
        m.disarm()
        mon.set_events(TOOL, 0)
        mon.register_callback(TOOL, EV.CALL, None)
        mon.register_callback(TOOL, EV.PY_START, None)
        mon.register_callback(TOOL, EV.INSTRUCTION, None)
        mon.register_callback(TOOL, EV.RAISE, None)
    # second observation level: the C-level environment.  Reported under 'libc:NAME' keys, and
    # only where the os.environ mapping shows no difference for NAME (no double counting).
    for k in set(c_before) | set(c_after):
        if c_before.get(k) != c_after.get(k) and before.get(k) == after.get(k):
            before['libc:' + k] = c_before.get(k)
            after['libc:' + k] = c_after.get(k)
    return m, outcome, before, after


def admissibility(m):
    """Rule 1 of DESIGN.md 5.4.  Index r such that only events < r may be fault
    points.  Restoration begins at the earliest of
    (a) the first *second* mutation of a touched variable: r = its outermost
        restoration-only ancestor (an in-progress call that began after the first
        perturbation), or the event count at that instant;
    (b) the first mutation made while an exception is being handled in a pydl frame
        (clean-up code, even when the perturbation itself never happened): r = its
        outermost in-progress call made by that frame or below, or the event count."""
    first = {}
    r = m.n
    open_at_r = ()
    for mu in m.mutations:
        if mu.get('cleanup') is not None:
            c = mu['cleanup']
            cand = c[0] if c else mu['at']
            # frames below the handling frame that were entered after the exception arrived
            # in it (a generator context manager resumed by throw(), helpers of __exit__):
            # on the exception path a `with` exit emits no CALL event, so these are not
            # covered by an in-progress ancestor; everything they call is restoration
            if mu.get('arrived') is not None and m.events:
                deeper = [e['i'] for e in m.events[mu['arrived']:mu['at']] if e['d'] > mu['hdepth']]
                if deeper:
                    cand = min(cand, deeper[0])
            if first:
                at_perturb = min(first.values())
                ronly = [a for a in mu['enclosing'] if a >= at_perturb]
                if ronly:
                    cand = min(cand, min(ronly))
            r = min(r, cand)
            open_at_r = tuple(mu['enclosing'])
            break
        if mu['key'] in first:
            at_perturb = min(first.values())
            ronly = [a for a in mu['enclosing'] if a >= at_perturb]
            r = min(r, min(ronly) if ronly else mu['at'])
            open_at_r = tuple(mu['enclosing'])
            break
        first[mu['key']] = mu['at']
    return r, frozenset(open_at_r)


def fault_windows(m):
    """Rule 1 generalised to code that perturbs and restores the touched variables several
    times in one call (DESIGN.md 5.4, rule 1d).  -> (limit, blocked, windows, open_calls):
    events < limit that are in no `blocked` range [(lo, hi)) are fault points; `windows`
    [(a, lo)] are the perturbed stretches (one per cycle); `open_calls` are calls in
    progress at some restoring mutation (no fail-on-return for them).

    A cycle starts at a mutation made while no cycle is open; the first *second* mutation of
    a variable inside the cycle starts its restoration (lo = outermost call that began after
    the cycle's first perturbation and is still in progress, else the event count); the cycle
    is complete when every variable it perturbed was mutated again and the touched variables
    have their entry values.  [lo, completing mutation) is the restoration mechanism and
    never a fault point.  After a complete cycle the scan continues; a clean-up mutation on
    the exception path, an incomplete cycle or any inconsistency in the value tracking stops
    it at the conservative single-limit answer of `admissibility`."""
    r0, open0 = admissibility(m)
    conservative = (r0, [], [(min((mu['at'] for mu in m.mutations), default=r0), r0)] if m.mutations else [],
                    frozenset(open0))
    tv0 = getattr(m, 'tv0', None)
    if tv0 is None or not m.events:
        return conservative
    entry = dict(zip(m.touched, tv0)) if hasattr(m, 'touched') else None
    if entry is None:
        return conservative
    cur = dict(entry)
    first = {}
    again = set()
    restoring = False
    lo = None
    blocked, windows = [], []
    open_calls = set()
    limit = m.n
    muts = m.mutations
    nev = len(m.events)
    for idx, mu in enumerate(muts):
        if mu.get('cleanup') is not None or isinstance(mu.get('val'), list):
            # the exception path (rule 1b/1c) or a mutation that cannot succeed: stop here,
            # with the limit the single-cycle rule gives when it is applied to this cycle only
            limit = _limit_from(m, muts, idx, first)
            if first and not restoring:
                windows.append((min(first.values()), limit))
            open_calls.update(mu['enclosing'])
            break
        if not restoring:
            if mu['key'] in first:
                at_perturb = min(first.values())
                ronly = [a for a in mu['enclosing'] if a >= at_perturb]
                lo = min(ronly) if ronly else mu['at']
                windows.append((at_perturb, lo))
                restoring = True
                again = set([mu['key']])
                open_calls.update(mu['enclosing'])
            else:
                first[mu['key']] = mu['at']
        else:
            again.add(mu['key'])
            open_calls.update(mu['enclosing'])
        cur[mu['key']] = mu.get('val') if mu['op'] == 'set' else None
        # the tracked values must agree with what the next event saw
        nxt = muts[idx + 1]['at'] if idx + 1 < len(muts) else m.n
        if mu['at'] < nev and mu['at'] < nxt:
            if tuple(m.events[mu['at']]['tv']) != tuple(cur[v] for v in m.touched):
                return conservative
        if restoring and again >= set(first) and cur == entry:
            blocked.append((lo, mu['at']))
            first, again, restoring, lo = {}, set(), False, None
    else:
        if restoring:
            limit = min(limit, lo)
    if not blocked:
        return conservative
    return limit, blocked, windows, frozenset(open_calls)


def _limit_from(m, muts, idx, first):
    """The single-cycle rule (see admissibility) applied at clean-up mutation muts[idx], with
    `first` = the perturbing mutations of the cycle that is open at that instant."""
    mu = muts[idx]
    c = mu.get('cleanup')
    cand = c[0] if c else mu['at']
    if mu.get('arrived') is not None and m.events:
        deeper = [e['i'] for e in m.events[mu['arrived']:mu['at']] if e['d'] > mu['hdepth']]
        if deeper:
            cand = min(cand, deeper[0])
    if first:
        at_perturb = min(first.values())
        ronly = [a for a in mu['enclosing'] if a >= at_perturb]
        if ronly:
            cand = min(cand, min(ronly))
    return cand


def mechanism_calls(m):
    """Calls that were in progress at ANY mutation of an environment variable: they are part of
    the perturbing or of the restoring mechanism.  A fail-on-return fault is never placed on
    them (rule 1e): "the helper exported the variables and then the failure surfaced between
    its return and the `try:` that follows" is the acquire-then-try idiom, not a failing stage.
    Entry faults on these calls remain admissible (they fail before doing anything)."""
    s = set()
    for mu in list(m.mutations) + list(m.other_mutations):
        s.update(mu['enclosing'])
    return frozenset(s)


def admissible_limit(m):
    """r only (see admissibility)."""
    return admissibility(m)[0]


def other_windows(m):
    """Environment variables other than the designated ones that the code under test
    mutates (a stage that sets and later restores, say, a thread-count variable).
    -> (blocked, windows, open_calls): `blocked` = [(lo, hi)) event index ranges that are the
    restoration mechanism of such a variable (never fault points); `windows` =
    [(lo, hi, key)] ranges in which that variable is perturbed (preferred fault points)."""
    blocked, windows = [], []
    open_calls = set()
    by_key = {}
    for mu in m.other_mutations:
        by_key.setdefault(mu['key'], []).append(mu)
    for key, mus in sorted(by_key.items()):
        a = None
        for mu in mus:
            if a is None and mu.get('cleanup') is None:
                a = mu['at']
                continue
            lo_candidates = [mu['at']]
            if mu.get('cleanup'):
                lo_candidates.append(mu['cleanup'][0])
            if mu.get('arrived') is not None and m.events:
                # rule 1c for this variable too: frames below the handling frame that were
                # entered after the exception arrived in it belong to its restoration
                deeper = [e['i'] for e in m.events[mu['arrived']:mu['at']] if e['d'] > mu['hdepth']]
                if deeper:
                    lo_candidates.append(deeper[0])
            if a is not None:
                lo_candidates += [x for x in mu['enclosing'] if x >= a]
            lo = min(lo_candidates)
            blocked.append((lo, mu['at']))
            open_calls.update(mu['enclosing'])
            if a is not None:
                windows.append((a, lo, key))
            a = None if mu['op'] == 'set' or mu['op'] == 'del' else a
        if a is not None:
            windows.append((a, m.n, key))
    return blocked, windows, frozenset(open_calls)


def l1_codes(m, entry_keys):
    """First-level callers: the entry function(s) plus every pydl function on the
    stack at any mutation of a touched variable."""
    s = set(entry_keys)
    for mu in m.mutations:
        s.update(mu['stack'])
    return s


def env_diff(before, after):
    d = {}
    for k in set(before) | set(after):
        if before.get(k) != after.get(k):
            d[k] = [before.get(k), after.get(k)]
    return d


def origin_of(exc):
    """(function qualname, line, exception type) of the innermost pydl frame of the
    traceback, or of the innermost frame at all."""
    tb = exc.__traceback__
    best = None
    last = None
    while tb is not None:
        co = tb.tb_frame.f_code
        last = (co.co_qualname, tb.tb_lineno)
        if co.co_filename.startswith(PYDL):
            best = (co.co_qualname, tb.tb_lineno)
        tb = tb.tb_next
    fn, ln = best or last or ('?', 0)
    return [fn, ln, type(exc).__name__]
